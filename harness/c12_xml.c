/*
 * C12 - XML traversal reports every element of a well-formed document exactly once
 * (DESIGN.md section 5, C12).
 *
 * A case is (element tree, action plan, max_depth option). The tree is generated first, the document is
 * *serialised from the tree* (recording the byte offsets of every name, body and closing tag), and the expected
 * callback sequence is the reference traversal of the tree under the plan (pre-order; children only of nodes whose
 * action is "descend"; nothing after an "abort"). The callback compares what the real parser hands it - element
 * identity (name bytes and their offset in the document), the traverse call it came from (user_data = parent
 * frame, i.e. the depth), attributes, and the body cursor by offset and length - with the tree, then performs the
 * planned action on the real node.
 *
 * Document classes (s_kind): within-limits well-formed (must be accepted and reported exactly), well-formed at the
 * depth boundary (outcome recorded, report must be right if accepted), well-formed beyond a limit (must be
 * rejected; what is reported before the rejection must still be right), malformed (closing tag of the root removed
 * / truncated / document cut anywhere inside the root: must be rejected, callbacks are not judged).
 */
#include "mon.h"

#include <aws/common/common.h>
#include <aws/common/error.h>
#include <aws/common/xml_parser.h>

#include <stdlib.h>

#define MAX_NODES 64
#define MAX_ATTRS 14
#define NAME_CAP 304
#define DOC_CAP (1u << 17)
#define DEFAULT_MAX_DEPTH 20

enum { A_DESCEND, A_BODY, A_SKIP, A_ABORT };
enum { K_POS, K_BOUNDARY, K_DEEP, K_LONGNAME, K_ATTR11, K_UNCLOSED, K_TRUNC_TAG, K_TRUNC_ANY };
enum { X_ACCEPT, X_REJECT, X_EITHER };
static const char *const KIND_NAME[] = {"within-limits", "depth-boundary", "over-deep", "long-name",
                                        "11+attributes", "root-unclosed",  "root-close-truncated", "cut-inside-root"};
static const char ACT_CH[] = "DBSA";

enum {
    F_SAME_NAME_DESC,   /* body/skip of a node that has a descendant with the same name succeeded */
    F_PREFIX_DESC,      /* body/skip of a node that has a descendant whose name extends its name succeeded (D3) */
    F_SKIP_THEN_SIB,    /* a skipped node was followed by a correctly reported sibling */
    F_BODY_THEN_SIB,    /* a body-read node was followed by a correctly reported sibling */
    F_SKIP_SAME_SIB,    /* ... and that sibling has the same name as the skipped/body-read node */
    F_ATTR10,           /* node with exactly 10 attributes reported */
    F_BAND_EDGE,        /* node at depth max_depth-2 reported */
    F_CUSTOM_DEPTH,     /* options.max_depth != 0 */
    F_BEYOND_DEFAULT,   /* custom max_depth > 20 and a node deeper than 20 reported */
    F_XML_DECL,         /* <?xml ...?> preamble */
    F_DOCTYPE,          /* <!DOCTYPE ...> or <!-- --> preamble */
    F_LEAD_WS,          /* whitespace before the first '<' */
    F_EMPTY_BODY,       /* body of length 0 read */
    F_WS_BODY,          /* whitespace-only body read */
    F_MARKUP_BODY,      /* body containing child elements read */
    F_NAME_255_256,     /* name of 255/256 bytes body-read or skipped */
    F_ABORT,            /* callback aborted the parse */
    F_REJ_DEEP,
    F_REJ_LONGNAME,
    F_REJ_ATTR11,
    F_REJ_UNCLOSED,
    F_REJ_TRUNC,
    F_BOUNDARY,
    F_TEXT_GT,          /* '>' inside character data */
    F_DESCEND_LEAF,     /* traverse of an element without children */
    F_LONGNAME_DESCEND, /* 257+ byte name, node descended into: accepted (recorded, not asserted) */
    F_SCRIPTED,         /* literal regression documents (D3 family) */
    F_ROOT_NOT_DESCENDED,
    F_CARELESS_CALLBACK, /* the callback ignored the depth-limit failure of traverse */
    F_DEEP_SAME_NAME_CHAIN,
    F_NFLAGS
};

struct tattr {
    char name[16];
    uint8_t nlen;
    char val[48];
    uint8_t vlen;
};

struct tnode {
    int parent, first_child, last_child, next_sib, nchildren, depth;
    char name[NAME_CAP];
    size_t name_len;
    int nattr;
    struct tattr attr[MAX_ATTRS];
    char text0[24]; /* scripted documents: text right after the start tag */
    size_t text0_len;
    int action;
    size_t tag_start, name_off, body_start, body_end, close_end;
};

struct frame {
    int node; /* node whose traverse call this frame belongs to; -1 = aws_xml_parse (root level) */
};

static struct tnode N[MAX_NODES];
static int s_n;
static uint8_t s_buf[DOC_CAP];
static size_t s_len;
static uint8_t *s_doc;
static size_t s_doc_len;
static int s_kind, s_expect;
static size_t s_opt_depth, s_eff_depth;
static int s_exp[MAX_NODES], s_nexp, s_k;
static bool s_ref_aborted;
static bool s_lenient, s_failed, s_abort_done, s_desync, s_scripted, s_text_gt, s_text_gt_emitted;
static bool s_careless, s_swallowed; /* the descend action ignores a failed traverse (only for documents deeper than the limit) */
static int s_last_cb, s_pending, s_target, s_chain_leaf;
static uint64_t s_ncb, s_nbody, s_nskip, s_ndescend;
static struct frame s_frames[MAX_NODES + 1];
static bool s_has_decl, s_has_doctype, s_has_lead_ws;

/* ------------------------------------------------------------------ witness text */
static char s_wit[3400];

static size_t esc(char *out, size_t cap, const uint8_t *p, size_t n) {
    size_t o = 0;
    for (size_t i = 0; i < n; ++i) {
        if (o + 8 >= cap) {
            o += (size_t)snprintf(out + o, cap - o, "..");
            break;
        }
        uint8_t c = p[i];
        /* compress runs of one letter (long names) */
        size_t run = 1;
        while (i + run < n && p[i + run] == c) {
            ++run;
        }
        if (run >= 12 && c > 32 && c < 127) {
            o += (size_t)snprintf(out + o, cap - o, "%c{x%zu}", c, run);
            i += run - 1;
        } else if (c == '\\') {
            out[o++] = '\\';
            out[o++] = '\\';
        } else if (c >= 32 && c < 127) {
            out[o++] = (char)c;
        } else if (c == '\n') {
            out[o++] = '\\';
            out[o++] = 'n';
        } else {
            o += (size_t)snprintf(out + o, cap - o, "\\x%02x", c);
        }
    }
    out[o] = 0;
    return o;
}

/* printable form of a cursor handed out by the library */
static const char *ctxt(struct aws_byte_cursor c) {
    static char b[4][160];
    static int w;
    char *o = b[w++ & 3];
    if (c.len && !c.ptr) {
        snprintf(o, 160, "(NULL,len %zu)", c.len);
        return o;
    }
    size_t n = (size_t)snprintf(o, 160, "[%zu]'", c.len);
    n += esc(o + n, 120, c.ptr, c.len);
    o[n++] = '\'';
    o[n] = 0;
    return o;
}

static size_t plan_str(char *out, size_t cap, int i, size_t o) {
    if (o + 40 >= cap) {
        return o;
    }
    struct tnode *t = &N[i];
    if (t->name_len > 24) {
        o += (size_t)snprintf(out + o, cap - o, "%c{x%zu}:%c", t->name[0], t->name_len, ACT_CH[t->action]);
    } else {
        o += (size_t)snprintf(out + o, cap - o, "%.*s:%c", (int)t->name_len, t->name, ACT_CH[t->action]);
    }
    if (t->nchildren) {
        out[o++] = '(';
        for (int c = t->first_child; c >= 0; c = N[c].next_sib) {
            o = plan_str(out, cap, c, o);
            if (N[c].next_sib >= 0 && o + 2 < cap) {
                out[o++] = ' ';
            }
        }
        if (o + 2 < cap) {
            out[o++] = ')';
        }
    }
    out[o] = 0;
    return o;
}

/* "class=.. max_depth=.. doc[len]="..." plan=name:Action(children..)"  (D descend, B body, S skip, A abort) */
static const char *witness(void) {
    size_t o = (size_t)snprintf(s_wit, sizeof(s_wit), "class=%s options.max_depth=%zu doc[%zu]=\"", KIND_NAME[s_kind],
                                s_opt_depth, s_doc_len);
    o += esc(s_wit + o, 2100, s_doc, s_doc_len);
    o += (size_t)snprintf(s_wit + o, sizeof(s_wit) - o, "\" plan=");
    plan_str(s_wit, sizeof(s_wit) - 8, 0, o);
    return s_wit;
}

static const char *nname(int i) {
    static char b[4][64];
    static int w;
    char *o = b[w++ & 3];
    if (i < 0) {
        return "(none)";
    }
    if (N[i].name_len > 24) {
        snprintf(o, 64, "#%d<%c{x%zu}>@%zu", i, N[i].name[0], N[i].name_len, N[i].tag_start);
    } else {
        snprintf(o, 64, "#%d<%.*s>@%zu", i, (int)N[i].name_len, N[i].name, N[i].tag_start);
    }
    return o;
}

/* ------------------------------------------------------------------ tree */
static int new_node(int parent, bool prepend) {
    int i = s_n++;
    struct tnode *t = &N[i];
    t->parent = parent;
    t->first_child = t->last_child = t->next_sib = -1;
    t->nchildren = 0;
    t->depth = parent < 0 ? 1 : N[parent].depth + 1;
    t->name_len = 0;
    t->nattr = 0;
    t->text0_len = 0;
    t->action = A_DESCEND;
    if (parent >= 0) {
        struct tnode *p = &N[parent];
        if (p->first_child < 0) {
            p->first_child = p->last_child = i;
        } else if (prepend) {
            t->next_sib = p->first_child;
            p->first_child = i;
        } else {
            N[p->last_child].next_sib = i;
            p->last_child = i;
        }
        ++p->nchildren;
    }
    return i;
}

static void set_name(int i, const char *s, size_t n) {
    memcpy(N[i].name, s, n);
    N[i].name_len = n;
}

static bool desc_match(int i, int root, int how) {
    /* how 0: a descendant of root has the same name; how 1: a descendant's name properly extends root's name */
    for (int c = N[i].first_child; c >= 0; c = N[c].next_sib) {
        const struct tnode *d = &N[c], *r = &N[root];
        if (how == 0 && d->name_len == r->name_len && !memcmp(d->name, r->name, r->name_len)) {
            return true;
        }
        if (how == 1 && d->name_len > r->name_len && !memcmp(d->name, r->name, r->name_len)) {
            return true;
        }
        if (desc_match(c, root, how)) {
            return true;
        }
    }
    return false;
}

static const char *const FAM[3][12] = {
    {"a", "aa", "ab", "aab", "abc", "aaa", "a1", "a-b", "a.b", "a:b", "a_b", "abcd"},
    {"b", "b1", "ba", "bb", "bab", "b1a", "B", "b-", "b.1", "ba1", "bbb", "b_"},
    {"Key", "KeyMarker", "Contents", "ContentsList", "Name", "NameSpace", "Prefix", "PrefixList", "Error", "Errors", "Code",
     "ListBucketResult"},
};
static const char *const SUFFIX[] = {"b", "a", "1", "-x", ".y", ":z", "_", "ab", "s", "A"};

static bool alnum(char c) {
    return (c >= 'a' && c <= 'z') || (c >= 'A' && c <= 'Z') || (c >= '0' && c <= '9');
}

static void assign_names(struct mon_rng *r) {
    const char *pool[6];
    unsigned fam = (unsigned)mon_below(r, 3);
    unsigned npool = 1 + (unsigned)mon_below(r, 5);
    for (unsigned j = 0; j < npool; ++j) {
        unsigned f = mon_chance(r, 1, 5) ? (unsigned)mon_below(r, 3) : fam;
        /* the first entries of a family are the short, mutually-prefixing names: bias towards them */
        pool[j] = FAM[f][mon_chance(r, 2, 3) ? mon_below(r, 5) : mon_below(r, 12)];
    }
    for (int i = 0; i < s_n; ++i) {
        unsigned p = (unsigned)mon_below(r, 100);
        int par = N[i].parent;
        if (par >= 0 && p < 20) {
            set_name(i, N[par].name, N[par].name_len); /* nests inside itself */
        } else if (par >= 0 && p < 40 && N[par].name_len < 20) {
            const char *sfx = SUFFIX[mon_below(r, sizeof(SUFFIX) / sizeof(SUFFIX[0]))];
            set_name(i, N[par].name, N[par].name_len); /* extends the parent's name */
            memcpy(N[i].name + N[i].name_len, sfx, strlen(sfx));
            N[i].name_len += strlen(sfx);
        } else if (par >= 0 && p < 48 && N[par].name_len > 1 && N[par].name_len < 64) {
            size_t n = N[par].name_len - 1; /* the parent's name extends this one */
            while (n > 1 && !alnum(N[par].name[n - 1])) {
                --n;
            }
            set_name(i, N[par].name, n);
        } else {
            const char *s = pool[mon_below(r, npool)];
            set_name(i, s, strlen(s));
        }
    }
    if (mon_chance(r, 1, 12)) {
        /* long names up to the limit, nested so that they are prefixes of one another */
        static const size_t LL[] = {128, 200, 254, 255, 256, 256};
        unsigned cnt = 1 + (unsigned)mon_below(r, 3);
        char c = "abx"[mon_below(r, 3)];
        for (unsigned k = 0; k < cnt; ++k) {
            int x = (int)mon_below(r, (uint64_t)s_n);
            N[x].name_len = LL[mon_below(r, 6)];
            memset(N[x].name, c, N[x].name_len);
            for (int ch = N[x].first_child; ch >= 0; ch = N[ch].next_sib) {
                if (mon_chance(r, 1, 2)) {
                    N[ch].name_len = LL[mon_below(r, 6)];
                    memset(N[ch].name, c, N[ch].name_len);
                }
            }
        }
    }
}

static const char *const ATTR_NAMES[] = {"id", "x", "y", "a", "ab", "b", "xmlns", "xmlns:a", "xml:lang", "k", "Key", "aa"};
static const char ATTR_CH[] = "abcxyzAZ0123456789/:.-_;'?!#%+*()[]{}|~^@$,";
static const char *const ATTR_MIMIC[] = {"a", "/a", "ab", "a/", "1.0", "http://x.y/z", "UTF-8", "/"};

static void gen_attrs(struct mon_rng *r, int i, int forced) {
    struct tnode *t = &N[i];
    int n;
    if (forced >= 0) {
        n = forced;
    } else {
        unsigned p = (unsigned)mon_below(r, 100);
        n = p < 55 ? 0 : p < 80 ? 1 + (int)mon_below(r, 2) : p < 90 ? 3 + (int)mon_below(r, 7) : 10;
    }
    t->nattr = n;
    for (int a = 0; a < n; ++a) {
        struct tattr *at = &t->attr[a];
        const char *base = ATTR_NAMES[mon_below(r, sizeof(ATTR_NAMES) / sizeof(ATTR_NAMES[0]))];
        bool dup = false;
        for (int b = 0; b < a; ++b) {
            dup |= t->attr[b].nlen == strlen(base) && !memcmp(t->attr[b].name, base, strlen(base));
        }
        /* attribute names are unique within an element (well-formedness constraint) */
        at->nlen = (uint8_t)(dup ? snprintf(at->name, sizeof(at->name), "%s%d", base, a) : snprintf(at->name, sizeof(at->name), "%s", base));
        unsigned p = (unsigned)mon_below(r, 100);
        if (p < 15) {
            at->vlen = 0;
        } else if (p < 30) {
            const char *m = ATTR_MIMIC[mon_below(r, sizeof(ATTR_MIMIC) / sizeof(ATTR_MIMIC[0]))];
            at->vlen = (uint8_t)strlen(m);
            memcpy(at->val, m, at->vlen);
        } else {
            size_t len = p < 95 ? 1 + (size_t)mon_below(r, 8) : 30 + (size_t)mon_below(r, 11);
            for (size_t k = 0; k < len; ++k) {
                at->val[k] = ATTR_CH[mon_below(r, sizeof(ATTR_CH) - 1)];
            }
            at->vlen = (uint8_t)len;
            if (mon_chance(r, 1, 10) && len >= 2) {
                at->val[0] = (char)0xC3; /* U+00E9 */
                at->val[1] = (char)0xA9;
            }
        }
    }
}

/* tree of n nodes no deeper than maxd */
static void gen_shape(struct mon_rng *r, int n, int maxd) {
    unsigned style = (unsigned)mon_below(r, 100);
    s_n = 0;
    new_node(-1, false);
    for (int i = 1; i < n; ++i) {
        int par;
        if (style < 35) {
            par = mon_chance(r, 7, 8) ? i - 1 : (int)mon_below(r, (uint64_t)i);
        } else if (style < 75) {
            par = (int)mon_below(r, (uint64_t)i);
        } else {
            par = mon_chance(r, 2, 3) ? 0 : (int)mon_below(r, (uint64_t)i);
        }
        while (N[par].depth + 1 > maxd) {
            par = N[par].parent;
        }
        new_node(par, mon_chance(r, 1, 4));
    }
}

static void gen_actions(struct mon_rng *r, bool all_descend) {
    for (int i = 0; i < s_n; ++i) {
        unsigned p = (unsigned)mon_below(r, 100);
        if (all_descend) {
            N[i].action = (N[i].nchildren || p < 50) ? A_DESCEND : A_BODY;
        } else {
            N[i].action = p < 50 ? A_DESCEND : p < 72 ? A_BODY : A_SKIP;
        }
    }
    if (!all_descend && s_n > 1 && mon_chance(r, 4, 5)) {
        N[0].action = A_DESCEND;
    }
}

static void force_path_descend(int x) {
    for (int a = N[x].parent; a >= 0; a = N[a].parent) {
        N[a].action = A_DESCEND;
    }
}

/* ------------------------------------------------------------------ reference traversal */
static void ref_visit(int i) {
    s_exp[s_nexp++] = i;
    if (N[i].action == A_ABORT) {
        s_ref_aborted = true;
        return;
    }
    if (N[i].action == A_DESCEND) {
        for (int c = N[i].first_child; c >= 0 && !s_ref_aborted; c = N[c].next_sib) {
            ref_visit(c);
        }
    }
}

static void reference(void) {
    s_nexp = 0;
    s_ref_aborted = false;
    ref_visit(0);
}

/* ------------------------------------------------------------------ serialiser */
static void put(const void *p, size_t n) {
    if (s_len + n > sizeof(s_buf)) {
        fprintf(stderr, "c12_xml: harness document buffer too small\n");
        abort();
    }
    memcpy(s_buf + s_len, p, n);
    s_len += n;
}
static void puts_(const char *s) {
    put(s, strlen(s));
}

static const char TEXT_CH[] = "abcxyzABZ0123456789 \n\t\"'=/?!-;.,:()[]{}_+*#%@  ";
static const char *const TEXT_WS[] = {" ", "\n", "\n  ", "\t", "\r\n", "    "};
static const char *const TEXT_MIMIC[] = {"a", "ab", "/a", "a/", "a x=\"1\"", "/ab", "?xml", "!DOCTYPE", "aab abc", "/"};

static void emit_text(struct mon_rng *r, bool leaf) {
    if (s_scripted) {
        return;
    }
    unsigned p = (unsigned)mon_below(r, 100);
    if (p < (leaf ? 25u : 50u)) {
        return;
    }
    if (p < (leaf ? 40u : 70u)) {
        puts_(TEXT_WS[mon_below(r, 6)]);
        return;
    }
    size_t n = mon_chance(r, 1, 50) ? 300 + (size_t)mon_below(r, 1200) : 1 + (size_t)mon_below(r, 24);
    for (size_t i = 0; i < n; ++i) {
        put(&TEXT_CH[mon_below(r, sizeof(TEXT_CH) - 1)], 1);
    }
    if (mon_chance(r, 1, 6)) {
        puts_(TEXT_MIMIC[mon_below(r, sizeof(TEXT_MIMIC) / sizeof(TEXT_MIMIC[0]))]);
    }
    if (mon_chance(r, 1, 10)) {
        puts_("\xC3\xA9");
    }
    if (s_text_gt && mon_chance(r, 1, 2)) {
        /* '>' is legal in character data; since fix 2edaf1a it must not confuse the tag scanner */
        puts_(mon_chance(r, 1, 2) ? ">" : "> a>");
        s_text_gt_emitted = true;
    }
}

static void ser_node(struct mon_rng *r, int i) {
    struct tnode *t = &N[i];
    t->tag_start = s_len;
    put("<", 1);
    t->name_off = s_len;
    put(t->name, t->name_len);
    for (int a = 0; a < t->nattr; ++a) {
        put(" ", 1);
        put(t->attr[a].name, t->attr[a].nlen);
        put("=\"", 2);
        put(t->attr[a].val, t->attr[a].vlen);
        put("\"", 1);
    }
    put(">", 1);
    t->body_start = s_len;
    if (t->text0_len) {
        put(t->text0, t->text0_len);
    }
    emit_text(r, t->nchildren == 0);
    for (int c = t->first_child; c >= 0; c = N[c].next_sib) {
        ser_node(r, c);
        emit_text(r, false);
    }
    t->body_end = s_len;
    put("</", 2);
    put(t->name, t->name_len);
    put(">", 1);
    t->close_end = s_len;
}

static void serialise(struct mon_rng *r) {
    s_len = 0;
    s_has_decl = s_has_doctype = s_has_lead_ws = false;
    s_text_gt_emitted = false;
    if (!s_scripted) {
        if (mon_chance(r, 1, 4)) {
            puts_(TEXT_WS[mon_below(r, 6)]);
            s_has_lead_ws = true;
        }
        if (mon_chance(r, 1, 2)) {
            static const char *const D[] = {"<?xml version=\"1.0\" encoding=\"UTF-8\"?>", "<?xml version=\"1.0\"?>",
                                            "<?xml version=\"1.1\" encoding=\"utf-8\" standalone=\"yes\"?>", "<?xml?>"};
            puts_(D[mon_below(r, 4)]);
            s_has_decl = true;
            if (mon_chance(r, 1, 2)) {
                puts_(mon_chance(r, 1, 2) ? "\n" : "\r\n  ");
            }
        }
        if (mon_chance(r, 1, 4)) {
            static const char *const D[] = {"<!DOCTYPE a>", "<!DOCTYPE r SYSTEM \"r.dtd\">", "<!-- a comment: a ab /a -->",
                                            "<!DOCTYPE ab PUBLIC \"-//X//Y\" \"http://x/y.dtd\">"};
            unsigned k = 1 + (unsigned)mon_below(r, 2);
            for (unsigned j = 0; j < k; ++j) {
                puts_(D[mon_below(r, 4)]);
                if (mon_chance(r, 1, 2)) {
                    puts_("\n");
                }
            }
            s_has_doctype = true;
        }
    }
    ser_node(r, 0);
    if (!s_scripted && mon_chance(r, 1, 3)) {
        puts_(TEXT_WS[mon_below(r, 6)]);
    }
}

/* ------------------------------------------------------------------ scripted documents (D3 family regressions) */
static const char *const SCRIPTS[] = {
    "r:D(a:B(ab:D{t}))",                         /* D3: <r><a><ab>t</ab></a></r>, body of a */
    "r:D(a:S(ab:D{t}))",                         /* D3, skip of a */
    "r:D(a:S(ab:D{t}) b:B{u})",                  /* skip, then the following sibling */
    "r:D(a:D(ab:B{t}))",                         /* full descent */
    "a:D(a:S(a:D(a:B{x})) a:B{y})",              /* a nests inside itself */
    "r:D(ab:S(a:D{t}) a:B{u})",                  /* parent's name extends the child's */
    "r:D(a:B(a-b:D{t} a.b:D a:D(aa:D) a1:D))",   /* delimiter-like name characters */
    "a:B(ab:D(a:D{t}) aab:D)",                   /* root read as body */
    "r:S(r:D(r:D))",                             /* root skipped */
    "r:D(a:S(aa:D(a:D{1}) a:D{2}) a:B(aa:D(aa:D) a:D{3}) aa:B{4})",
    "aa:D(a:S(aa:D(a:D)) aa:S(a:D(aa:D{z})) a:B)",
    "r:D(a:S(ab:D(a:D(ab:D))) ab:S(a:D) a:B(ab:D{q} a:D{w}))",
};
#define NSCRIPT ((int)(sizeof(SCRIPTS) / sizeof(SCRIPTS[0])))

static const char *s_sp;
static void parse_spec(int parent) {
    while (*s_sp == ' ') {
        ++s_sp;
    }
    int i = new_node(parent, false);
    const char *b = s_sp;
    while (*s_sp != ':') {
        ++s_sp;
    }
    set_name(i, b, (size_t)(s_sp - b));
    ++s_sp;
    N[i].action = *s_sp == 'D' ? A_DESCEND : *s_sp == 'B' ? A_BODY : *s_sp == 'S' ? A_SKIP : A_ABORT;
    ++s_sp;
    if (*s_sp == '{') {
        b = ++s_sp;
        while (*s_sp != '}') {
            ++s_sp;
        }
        N[i].text0_len = (size_t)(s_sp - b);
        memcpy(N[i].text0, b, N[i].text0_len);
        ++s_sp;
    }
    if (*s_sp == '(') {
        ++s_sp;
        for (;;) {
            while (*s_sp == ' ') {
                ++s_sp;
            }
            if (*s_sp == ')') {
                break;
            }
            parse_spec(i);
        }
        ++s_sp;
    }
}

/* ------------------------------------------------------------------ case generation */
static void gen_case(uint64_t c) {
    struct mon_rng *r = &mon_case_rng;
    s_scripted = false;
    s_target = -1;
    s_chain_leaf = -1;
    s_text_gt = false;
    if (c < (uint64_t)NSCRIPT) {
        s_scripted = true;
        s_kind = K_POS;
        s_opt_depth = 0;
        s_eff_depth = DEFAULT_MAX_DEPTH;
        s_expect = X_ACCEPT;
        s_n = 0;
        s_sp = SCRIPTS[c];
        parse_spec(-1);
        serialise(r);
        return;
    }
    unsigned pk = (unsigned)mon_below(r, 100);
    s_kind = pk < 70   ? K_POS
             : pk < 76 ? K_BOUNDARY
             : pk < 82 ? K_DEEP
             : pk < 86 ? K_LONGNAME
             : pk < 90 ? K_ATTR11
             : pk < 93 ? K_UNCLOSED
             : pk < 96 ? K_TRUNC_TAG
                       : K_TRUNC_ANY;
    s_text_gt = mon_chance(r, 1, 16);
    if (s_kind == K_BOUNDARY || s_kind == K_DEEP) {
        static const size_t DD[] = {0, 0, 0, 1, 2, 3, 4, 5, 8, 21, 25, 40};
        s_opt_depth = DD[mon_below(r, 12)];
        s_eff_depth = s_opt_depth ? s_opt_depth : DEFAULT_MAX_DEPTH;
        int D;
        if (s_kind == K_BOUNDARY) {
            D = (int)s_eff_depth - (int)mon_below(r, 2);
            if (D < 1) {
                D = 1;
            }
        } else {
            static const int EX[] = {1, 1, 1, 2, 5, 12};
            D = (int)s_eff_depth + EX[mon_below(r, 6)];
            if (D > 58) {
                D = (int)s_eff_depth + 1;
            }
        }
        s_n = 0;
        new_node(-1, false);
        for (int i = 1; i < D; ++i) {
            new_node(i - 1, false);
        }
        s_chain_leaf = D - 1;
        int room = MAX_NODES - 4 - D;
        int extras = D < 2 ? 0 : (int)mon_below(r, (uint64_t)(room < 12 ? room : 12) + 1);
        for (int e = 0; e < extras; ++e) {
            int par = (int)mon_below(r, (uint64_t)s_n);
            while (N[par].depth + 1 > D) {
                par = N[par].parent;
            }
            new_node(par, mon_chance(r, 1, 2));
        }
        assign_names(r);
        for (int i = 0; i < s_n; ++i) {
            gen_attrs(r, i, -1);
        }
        gen_actions(r, false);
        for (int i = 0; i < D - 1; ++i) {
            N[i].action = A_DESCEND;
        }
        if (s_kind == K_BOUNDARY) {
            /* only the chain's deepest node decides the outcome: other nodes at depth D do not descend */
            for (int i = D; i < s_n; ++i) {
                if (N[i].depth >= D && N[i].action == A_DESCEND) {
                    N[i].action = mon_chance(r, 1, 2) ? A_BODY : A_SKIP;
                }
            }
            s_expect = X_EITHER;
        } else {
            s_expect = X_REJECT;
        }
        serialise(r);
        return;
    }
    /* all other classes start from a within-limits tree */
    if (mon_chance(r, 13, 20)) {
        s_opt_depth = 0;
    } else {
        static const size_t DD[] = {3, 4, 4, 5, 6, 8, 12, 20, 21, 25, 40, 40};
        s_opt_depth = DD[mon_below(r, 12)];
    }
    s_eff_depth = s_opt_depth ? s_opt_depth : DEFAULT_MAX_DEPTH;
    int maxd = (int)s_eff_depth - 2; /* DESIGN: positives stay <= max_depth-2 */
    if (maxd > 58) {
        maxd = 58;
    }
    int n = maxd <= 1 ? 1 : 1 + (int)mon_edge_size(r, 59);
    gen_shape(r, n, maxd);
    assign_names(r);
    for (int i = 0; i < s_n; ++i) {
        gen_attrs(r, i, -1);
    }
    gen_actions(r, mon_chance(r, 1, 4));
    s_expect = X_ACCEPT;
    switch (s_kind) {
        case K_POS:
            if (mon_chance(r, 1, 12)) {
                reference();
                N[s_exp[mon_below(r, (uint64_t)s_nexp)]].action = A_ABORT;
            }
            break;
        case K_LONGNAME: {
            static const size_t LL[] = {257, 257, 258, 300};
            s_target = (int)mon_below(r, (uint64_t)s_n);
            N[s_target].name_len = LL[mon_below(r, 4)];
            memset(N[s_target].name, "abx"[mon_below(r, 3)], N[s_target].name_len);
            if (mon_chance(r, 1, 3)) {
                N[s_target].name[N[s_target].name_len - 1] = 'b';
            }
            force_path_descend(s_target);
            unsigned p = (unsigned)mon_below(r, 5);
            N[s_target].action = p < 2 ? A_BODY : p < 4 ? A_SKIP : A_DESCEND;
            /* body/skip must search for "</name>": impossible beyond the limit -> must be rejected.
             * descend never needs the name again: accepted today; recorded, not asserted */
            s_expect = N[s_target].action == A_DESCEND ? X_EITHER : X_REJECT;
            break;
        }
        case K_ATTR11: {
            static const int NA[] = {11, 11, 12, 14};
            s_target = (int)mon_below(r, (uint64_t)s_n);
            gen_attrs(r, s_target, NA[mon_below(r, 4)]);
            force_path_descend(s_target);
            s_expect = X_REJECT;
            break;
        }
        default:
            s_expect = X_REJECT;
            break;
    }
    serialise(r);
    size_t close_len = N[0].close_end - N[0].body_end;
    if (s_kind == K_UNCLOSED) {
        s_len = N[0].body_end;
    } else if (s_kind == K_TRUNC_TAG) {
        s_len = N[0].body_end + 1 + (size_t)mon_below(r, close_len - 1);
    } else if (s_kind == K_TRUNC_ANY) {
        s_len = N[0].tag_start + 1 + (size_t)mon_below(r, N[0].close_end - 1 - N[0].tag_start);
    }
}

/* ------------------------------------------------------------------ the callback */
static int stop_parse(void) {
    return aws_raise_error(AWS_ERROR_INVALID_STATE);
}

static bool cur_eq(struct aws_byte_cursor c, const char *s, size_t n) {
    return c.len == n && (n == 0 || (c.ptr && !memcmp(c.ptr, s, n)));
}

static bool in_doc(const uint8_t *p) {
    return p >= s_doc && p < s_doc + s_doc_len;
}

static const char *fail_key(int ni, const char *dflt) {
    if (desc_match(ni, ni, 1)) {
        return "C12:prefix-name-descendant"; /* the D3 class */
    }
    if (desc_match(ni, ni, 0)) {
        return "C12:same-name-descendant";
    }
    return dflt;
}

static void commit_pending(int next) {
    /* the node in s_pending was skipped / body-read and the parser got past it */
    int p = s_pending;
    s_pending = -1;
    if (p < 0) {
        return;
    }
    if (desc_match(p, p, 0)) {
        mon_flag(F_SAME_NAME_DESC);
    }
    if (desc_match(p, p, 1)) {
        mon_flag(F_PREFIX_DESC);
    }
    if (N[p].name_len >= 255) {
        mon_flag(F_NAME_255_256);
    }
    if (next >= 0 && N[p].next_sib == next) {
        mon_flag(N[p].action == A_SKIP ? F_SKIP_THEN_SIB : F_BODY_THEN_SIB);
        if (N[next].name_len == N[p].name_len && !memcmp(N[next].name, N[p].name, N[p].name_len)) {
            mon_flag(F_SKIP_SAME_SIB);
        }
    }
}

static int on_node(struct aws_xml_node *node, void *ud) {
    if (s_swallowed && !s_failed) {
        s_failed = true;
        mon_violation("C12:callback-after-error", "a callback was delivered after aws_xml_node_traverse had reported the depth-limit error (which the previous callback ignored); %s", witness());
    }
    ++s_ncb;
    if (s_desync) {
        return AWS_OP_SUCCESS; /* malformed document: callbacks are not judged */
    }
    if (s_failed) {
        return stop_parse();
    }
    struct aws_byte_cursor nm = aws_xml_node_get_name(node);
    if (s_abort_done) {
        s_failed = true;
        mon_violation("C12:callback-after-abort", "callback for name %s after the callback for %s returned an error; %s",
                      ctxt(nm), nname(s_last_cb), witness());
        return stop_parse();
    }
    if (s_k >= s_nexp) {
        if (s_lenient) {
            s_desync = true;
            return AWS_OP_SUCCESS;
        }
        s_failed = true;
        mon_violation("C12:extra-callback", "callback #%d for name %s after all %d expected elements were reported; %s", s_k + 1,
                      ctxt(nm), s_nexp, witness());
        return stop_parse();
    }
    int ni = s_exp[s_k];
    struct tnode *t = &N[ni];
    bool same = cur_eq(nm, t->name, t->name_len);
    /* element identity: the name cursor points into the document, so its offset tells WHICH <a> this is */
    bool located = nm.len && in_doc(nm.ptr);
    if (same && located && (size_t)(nm.ptr - s_doc) != t->name_off) {
        same = false;
    }
    if (!same) {
        if (s_lenient) {
            s_desync = true;
            return AWS_OP_SUCCESS;
        }
        s_failed = true;
        const char *key = "C12:sequence";
        if (s_last_cb >= 0 && N[s_last_cb].action == A_SKIP) {
            key = "C12:sibling-after-skip";
        } else if (s_last_cb >= 0 && N[s_last_cb].action == A_BODY) {
            key = "C12:sibling-after-body";
        }
        mon_violation(key, "callback #%d: expected element %s, got name %s at offset %ld (previous callback: %s, action %c); %s",
                      s_k + 1, nname(ni), ctxt(nm), located ? (long)(nm.ptr - s_doc) : -1L, nname(s_last_cb),
                      s_last_cb >= 0 ? ACT_CH[N[s_last_cb].action] : '-', witness());
        return stop_parse();
    }
    commit_pending(ni);
    if (ud != (void *)&s_frames[t->parent + 1] && !s_lenient) {
        int got = -2;
        for (int f = 0; f <= s_n; ++f) {
            if (ud == (void *)&s_frames[f]) {
                got = s_frames[f].node;
            }
        }
        s_failed = true;
        mon_violation("C12:depth", "element %s reported to the traversal of %s (user_data), its parent is %s; %s", nname(ni),
                      got == -2 ? "(unknown pointer)" : nname(got), nname(t->parent), witness());
        return stop_parse();
    }
    size_t na = aws_xml_node_get_num_attributes(node);
    if (na != (size_t)t->nattr && !s_lenient) {
        s_failed = true;
        mon_violation("C12:attr-count", "element %s: %zu attributes reported, %d written; %s", nname(ni), na, t->nattr, witness());
        return stop_parse();
    }
    for (size_t a = 0; a < na && a < (size_t)t->nattr && !s_lenient; ++a) {
        struct aws_xml_attribute at = aws_xml_node_get_attribute(node, a);
        if (!cur_eq(at.name, t->attr[a].name, t->attr[a].nlen) || !cur_eq(at.value, t->attr[a].val, t->attr[a].vlen)) {
            s_failed = true;
            mon_violation("C12:attr", "element %s attribute %zu: got name %s value %s, written %.*s=\"%.*s\"; %s", nname(ni), a, ctxt(at.name),
                          ctxt(at.value), (int)t->attr[a].nlen, t->attr[a].name, (int)t->attr[a].vlen, t->attr[a].val, witness());
            return stop_parse();
        }
    }
    ++s_k;
    s_last_cb = ni;
    if (t->nattr == 10) {
        mon_flag(F_ATTR10);
    }
    if (t->depth == (int)s_eff_depth - 2) {
        mon_flag(F_BAND_EDGE);
    }
    if (t->depth > DEFAULT_MAX_DEPTH && s_opt_depth > DEFAULT_MAX_DEPTH) {
        mon_flag(F_BEYOND_DEFAULT);
    }

    switch (t->action) {
        case A_ABORT:
            s_abort_done = true;
            mon_flag(F_ABORT);
            return aws_raise_error(AWS_ERROR_INVALID_STATE);

        case A_SKIP:
            ++s_nskip;
            s_pending = ni;
            return AWS_OP_SUCCESS;

        case A_BODY: {
            struct aws_byte_cursor body;
            AWS_ZERO_STRUCT(body);
            if (aws_xml_node_as_body(node, &body)) {
                if (s_lenient) {
                    return AWS_OP_ERR;
                }
                if (s_expect != X_ACCEPT) {
                    return AWS_OP_ERR; /* judged from the return value of aws_xml_parse */
                }
                s_failed = true;
                mon_violation(fail_key(ni, "C12:body-failed"), "aws_xml_node_as_body failed (error %d %s) for element %s; %s",
                              aws_last_error(), aws_error_name(aws_last_error()), nname(ni), witness());
                return AWS_OP_ERR;
            }
            ++s_nbody;
            size_t want = t->body_end - t->body_start;
            bool ok = body.len == want;
            if (ok && want) {
                /* by offset into the document copy when the cursor points there, else by content */
                ok = in_doc(body.ptr) ? (size_t)(body.ptr - s_doc) == t->body_start
                                      : (body.ptr && !memcmp(body.ptr, s_buf + t->body_start, want));
            }
            if (!ok && !s_lenient) {
                s_failed = true;
                mon_violation("C12:body", "element %s: body cursor offset %ld length %zu, text between its tags is offset %zu length %zu; %s",
                              nname(ni), body.ptr && in_doc(body.ptr) ? (long)(body.ptr - s_doc) : -1L, body.len, t->body_start, want,
                              witness());
                return stop_parse();
            }
            if (ok) {
                if (!want) {
                    mon_flag(F_EMPTY_BODY);
                } else if (t->nchildren) {
                    mon_flag(F_MARKUP_BODY);
                } else {
                    bool ws = true;
                    for (size_t i = t->body_start; i < t->body_end; ++i) {
                        ws &= s_buf[i] == ' ' || s_buf[i] == '\n' || s_buf[i] == '\t' || s_buf[i] == '\r';
                    }
                    if (ws) {
                        mon_flag(F_WS_BODY);
                    }
                }
            }
            s_pending = ni;
            return AWS_OP_SUCCESS;
        }

        default: {
            ++s_ndescend;
            s_frames[ni + 1].node = ni;
            int rc = aws_xml_node_traverse(node, on_node, &s_frames[ni + 1]);
            if (rc && s_careless) {
                /* a careless callback: `aws_xml_node_traverse(node, cb, ud); return AWS_OP_SUCCESS;` - the failure must be
                 * remembered by the parser itself: aws_xml_parse still has to report it and nothing more may be delivered */
                mon_flag(F_CARELESS_CALLBACK);
                s_swallowed = true;
                return AWS_OP_SUCCESS;
            }
            if (rc) {
                if (s_failed || s_abort_done || s_lenient || s_expect != X_ACCEPT) {
                    return AWS_OP_ERR;
                }
                s_failed = true;
                int L = s_last_cb;
                if (L != ni && N[L].parent == ni && N[L].action == A_SKIP) {
                    mon_violation(fail_key(L, "C12:skip-failed"),
                                  "skipping element %s failed: traversal of %s returned error %d %s; %s", nname(L), nname(ni),
                                  aws_last_error(), aws_error_name(aws_last_error()), witness());
                } else {
                    mon_violation("C12:traverse-failed", "aws_xml_node_traverse of %s failed (error %d %s) after the callback for %s; %s",
                                  nname(ni), aws_last_error(), aws_error_name(aws_last_error()), nname(L), witness());
                }
                return AWS_OP_ERR;
            }
            if (!t->nchildren) {
                mon_flag(F_DESCEND_LEAF);
            }
            return AWS_OP_SUCCESS;
        }
    }
}

/* ------------------------------------------------------------------ one case */
static uint64_t fnv(const uint8_t *p, size_t n) {
    uint64_t h = 1469598103934665603ULL;
    for (size_t i = 0; i < n; ++i) {
        h = (h ^ p[i]) * 1099511628211ULL;
    }
    return h;
}

static bool run_case(uint64_t c) {
    gen_case(c);
    reference();
    s_careless = s_kind == K_DEEP && s_expect == X_REJECT && mon_chance(&mon_case_rng, 1, 2);
    s_swallowed = false;
    mon_fp(s_careless);
    s_doc_len = s_len;
    s_doc = malloc(s_doc_len ? s_doc_len : 1); /* exact size, no terminator: ASan sees any over-read */
    memcpy(s_doc, s_buf, s_doc_len);
    s_lenient = s_kind >= K_UNCLOSED;
    s_failed = s_abort_done = s_desync = false;
    s_k = 0;
    s_last_cb = s_pending = -1;
    s_ncb = s_nbody = s_nskip = s_ndescend = 0;
    s_frames[0].node = -1;

    mon_fp((uint64_t)s_kind);
    mon_fp(s_opt_depth);
    mon_fp(fnv(s_doc, s_doc_len));
    for (int i = 0; i < s_n; ++i) {
        mon_fp((uint64_t)N[i].action);
    }
    if (mon_sampling()) {
        mon_sample("%s", witness());
    }

    struct mon_alloc_stats st0, st1;
    mon_guard_stats(&st0);
    struct aws_xml_parser_options opt;
    AWS_ZERO_STRUCT(opt);
    opt.doc = aws_byte_cursor_from_array(s_doc, s_doc_len);
    opt.max_depth = s_opt_depth;
    opt.on_root_encountered = on_node;
    opt.user_data = &s_frames[0];
    mon_poison_last_error(&mon_case_rng);
    int rc = aws_xml_parse(mon_guard_allocator(), &opt);
    int err = rc ? aws_last_error() : 0;
    mon_guard_stats(&st1);

    bool good = false;
    if (s_failed) {
        /* already reported */
    } else if (s_lenient) {
        if (rc == AWS_OP_SUCCESS) {
            mon_violation(s_kind == K_UNCLOSED ? "C12:accepted-unclosed" : "C12:accepted-truncated",
                          "aws_xml_parse returned success for a document whose root element is not closed (%llu callbacks); %s",
                          (unsigned long long)s_ncb, witness());
        } else {
            mon_flag(s_kind == K_UNCLOSED ? F_REJ_UNCLOSED : F_REJ_TRUNC);
            good = true;
        }
    } else if (s_abort_done) {
        if (rc == AWS_OP_SUCCESS) {
            mon_violation("C12:abort-ignored", "callback for %s returned AWS_OP_ERR but aws_xml_parse returned success; %s",
                          nname(s_last_cb), witness());
        } else {
            mon_count("abort_error_code_preserved", err == AWS_ERROR_INVALID_STATE);
            good = s_ncb >= 2;
        }
    } else if (rc != AWS_OP_SUCCESS) {
        if (s_expect == X_ACCEPT) {
            int L = s_last_cb;
            if (L < 0) {
                mon_violation("C12:rejected-before-root", "aws_xml_parse failed (error %d %s) before reporting the root; %s", err,
                              aws_error_name(err), witness());
            } else if (L == 0 && N[0].action == A_SKIP) {
                mon_violation(fail_key(0, "C12:skip-failed"), "skipping the root %s failed (error %d %s); %s", nname(0), err,
                              aws_error_name(err), witness());
            } else {
                mon_violation("C12:rejected", "aws_xml_parse failed (error %d %s) after %d of %d elements, last callback %s; %s", err,
                              aws_error_name(err), s_k, s_nexp, nname(L), witness());
            }
        } else if (s_expect == X_REJECT) {
            mon_flag(s_kind == K_DEEP ? F_REJ_DEEP : s_kind == K_LONGNAME ? F_REJ_LONGNAME : F_REJ_ATTR11);
            mon_count("overlimit_rejected_with_INVALID_XML", err == AWS_ERROR_INVALID_XML);
            good = true;
        }
    } else {
        /* success */
        if (s_expect == X_REJECT) {
            static const char *const K[] = {"", "", "C12:accepted-overdeep", "C12:accepted-long-name", "C12:accepted-11-attributes"};
            int off = s_target >= 0 ? s_target : s_chain_leaf;
            mon_violation(K[s_kind], "aws_xml_parse returned success (%d of %d elements reported) for a document beyond a limit "
                                     "(offending element %s, depth %d, name %zu bytes, %d attributes, effective max_depth %zu); %s",
                          s_k, s_nexp, nname(off), N[off].depth, N[off].name_len, N[off].nattr, s_eff_depth, witness());
        } else if (s_k != s_nexp) {
            mon_violation("C12:missing-callback", "aws_xml_parse returned success after %d callbacks, element %s (expected #%d of %d) was never "
                                                  "reported (previous callback: %s); %s",
                          s_k, nname(s_exp[s_k]), s_k + 1, s_nexp, nname(s_last_cb), witness());
        } else {
            commit_pending(-1);
            good = true;
        }
    }
    if (s_expect == X_EITHER && !s_failed) {
        if (s_kind == K_BOUNDARY) {
            mon_flag(F_BOUNDARY);
            bool eq = N[s_chain_leaf].depth == (int)s_eff_depth;
            bool ld = N[s_chain_leaf].action == A_DESCEND;
            if (rc) {
                mon_count(!eq ? "boundary_depth_max_minus_1_rejected" : ld ? "boundary_depth_eq_max_leaf_descend_rejected" : "boundary_depth_eq_max_leaf_body_or_skip_rejected", 1);
            } else {
                mon_count(!eq ? "boundary_depth_max_minus_1_accepted" : ld ? "boundary_depth_eq_max_leaf_descend_accepted" : "boundary_depth_eq_max_leaf_body_or_skip_accepted", 1);
            }
            good = true;
        } else {
            if (!rc) {
                mon_flag(F_LONGNAME_DESCEND);
            }
            mon_count(rc ? "long_name_descend_rejected" : "long_name_descend_accepted", 1);
            good = true;
        }
    }
    if (memcmp(s_doc, s_buf, s_doc_len)) {
        mon_violation("C12:doc-modified", "the parser changed the caller's document bytes; original %s", witness());
        good = false;
    }
    if (st1.live_blocks != st0.live_blocks) {
        mon_violation("C12:leak", "allocator imbalance after aws_xml_parse (rc %d): %lld blocks; %s", rc,
                      (long long)(st1.live_blocks - st0.live_blocks), witness());
        good = false;
    }
    if (good && !s_failed) {
        if (s_opt_depth) {
            mon_flag(F_CUSTOM_DEPTH);
        }
        if (s_has_decl) {
            mon_flag(F_XML_DECL);
        }
        if (s_has_doctype) {
            mon_flag(F_DOCTYPE);
        }
        if (s_has_lead_ws) {
            mon_flag(F_LEAD_WS);
        }
        if (s_text_gt_emitted) {
            mon_flag(F_TEXT_GT);
        }
        if (s_scripted) {
            mon_flag(F_SCRIPTED);
        }
        if (N[0].action != A_DESCEND && s_n > 1) {
            mon_flag(F_ROOT_NOT_DESCENDED);
        }
    }
    mon_count("documents", 1);
    mon_count("document_bytes", s_doc_len);
    mon_count("elements_generated", (uint64_t)s_n);
    mon_count("callbacks_checked", (uint64_t)s_k);
    mon_count("bodies_compared_by_offset", s_nbody);
    mon_count("nodes_skipped", s_nskip);
    mon_count("nodes_descended", s_ndescend);
    if (s_kind == K_POS && !s_abort_done && good) {
        mon_count("within_limits_documents_fully_reported", 1);
    }
    if (rc) {
        mon_count("documents_rejected", 1);
    }
    free(s_doc);
    s_doc = NULL;
    if (!good || s_failed) {
        return false;
    }
    if (s_kind == K_POS && !s_abort_done) {
        return s_scripted || (s_k >= 3 && mon_flag_count() >= 2);
    }
    return true;
}

/* ------------------------------------------------------------------ a long chain of same-named elements that is skipped or read
 * Skipping an element or reading its body scans for the end tag that matches it while counting the elements of the same name
 * that are still open; nothing bounds how many there are (the depth limit only applies to what the callback descends into,
 * and options.max_depth can be raised). Document:  <r><h>H</h> N x <a> x N x </a> <t>T</t></r>  with 30..1100 nested
 * elements, some written with attributes and a few '<ab>' elements in between; the callback descends L levels into the chain,
 * then skips or reads the body, whose extent is known by construction; <t> must still be reported and the parse succeed. */
struct deep_state {
    size_t n, descend, seen_chain;
    bool body, acted, tail_seen, bad;
    const char *doc;
    size_t body_off, body_len; /* of the element at chain level `descend` */
    size_t max_depth;
};

static int deep_on_node(struct aws_xml_node *node, void *ud) {
    struct deep_state *d = ud;
    struct aws_byte_cursor nm = aws_xml_node_get_name(node);
    if (aws_byte_cursor_eq_c_str(&nm, "r")) {
        return aws_xml_node_traverse(node, deep_on_node, d);
    }
    if (aws_byte_cursor_eq_c_str(&nm, "h")) {
        return AWS_OP_SUCCESS;
    }
    if (aws_byte_cursor_eq_c_str(&nm, "t")) {
        struct aws_byte_cursor b;
        if (d->tail_seen || !d->acted || aws_xml_node_as_body(node, &b) || !aws_byte_cursor_eq_c_str(&b, "T")) {
            d->bad = true;
            mon_violation("C12:deep-chain:sibling", "chain of %zu same-named elements, %s at level %zu: the following sibling <t> was reported %s",
                          d->n, d->body ? "body read" : "skipped", d->descend, d->tail_seen ? "twice" : !d->acted ? "before the chain" : "with a wrong body");
        }
        d->tail_seen = true;
        return AWS_OP_SUCCESS;
    }
    if (aws_byte_cursor_eq_c_str(&nm, "ab")) {
        /* its text is the chain level of its parent (-1: child of <r>): legitimate only as a child of a descended element */
        struct aws_byte_cursor b;
        long parent = -2;
        if (aws_xml_node_as_body(node, &b) == AWS_OP_SUCCESS && b.len > 0 && b.len < 12) {
            char t[16];
            memcpy(t, b.ptr, b.len);
            t[b.len] = 0;
            parent = strtol(t, NULL, 10);
        }
        if (parent < -1 || parent >= (long)d->descend) {
            d->bad = true;
            mon_violation("C12:deep-chain:reported-inside-skipped", "chain of %zu same-named elements, %s at level %zu: an <ab> child of chain level %ld was reported",
                          d->n, d->body ? "body read" : "skipped", d->descend, parent);
        }
        return AWS_OP_SUCCESS;
    }
    if (d->acted) {
        d->bad = true;
        mon_violation("C12:deep-chain:reported-inside-skipped", "chain of %zu same-named elements, %s at level %zu: element '%.*s' inside it was reported afterwards",
                      d->n, d->body ? "body read" : "skipped", d->descend, (int)nm.len, (const char *)nm.ptr);
        return AWS_OP_SUCCESS;
    }
    if (d->seen_chain < d->descend) {
        ++d->seen_chain;
        return aws_xml_node_traverse(node, deep_on_node, d);
    }
    d->acted = true;
    if (d->body) {
        struct aws_byte_cursor b;
        if (aws_xml_node_as_body(node, &b)) {
            d->bad = true;
            mon_violation("C12:deep-chain:body-failed", "chain of %zu same-named elements: aws_xml_node_as_body at level %zu failed (%s)", d->n, d->descend,
                          aws_error_name(aws_last_error()));
            return AWS_OP_ERR;
        }
        if (b.len != d->body_len || b.ptr != (const uint8_t *)d->doc + d->body_off) {
            d->bad = true;
            mon_violation("C12:deep-chain:body", "chain of %zu same-named elements: body of the element at level %zu is %zu bytes at offset %td, expected %zu bytes at offset %zu",
                          d->n, d->descend, b.len, b.ptr ? (const char *)b.ptr - d->doc : (ptrdiff_t)-1, d->body_len, d->body_off);
        }
    }
    return AWS_OP_SUCCESS; /* not descended into: skipped */
}

static void deep_chain_case(void) {
    struct mon_rng *r = &mon_case_rng;
    static const size_t NN[] = {30, 100, 200, 254, 255, 256, 257, 258, 300, 511, 512, 513, 700, 1100};
    struct deep_state d;
    memset(&d, 0, sizeof(d));
    d.n = NN[mon_below(r, sizeof(NN) / sizeof(NN[0]))];
    d.body = mon_chance(r, 1, 2);
    /* how far the callback descends: the top of the chain is at depth 2; stay two inside the limit like every other positive */
    bool raise = mon_chance(r, 1, 2);
    d.max_depth = raise ? d.n + 8 : 0;
    size_t lim = (raise ? d.max_depth : DEFAULT_MAX_DEPTH) - 4;
    size_t maxl = d.n - 1 < lim ? d.n - 1 : lim;
    d.descend = mon_chance(r, 1, 3) ? 0 : (size_t)mon_below(r, maxl + 1);
    bool with_ab = mon_chance(r, 1, 2);
    size_t cap = d.n * 48 + 256, o = 0;
    char *doc = malloc(cap);
    size_t *open_end = malloc(sizeof(size_t) * (d.n + 1)), *close_start = malloc(sizeof(size_t) * (d.n + 1));
    o += (size_t)sprintf(doc + o, "<r><h>H</h>");
    for (size_t i = 0; i < d.n; ++i) {
        if (with_ab && i % 7 == 3) {
            o += (size_t)sprintf(doc + o, "<ab>%ld</ab>", (long)i - 1);
        }
        o += (size_t)sprintf(doc + o, i % 5 == 2 ? "<a k=\"%zu\">" : "<a>", i);
        open_end[i] = o;
    }
    o += (size_t)sprintf(doc + o, "x");
    for (size_t i = d.n; i-- > 0;) {
        close_start[i] = o;
        o += (size_t)sprintf(doc + o, "</a>");
        if (with_ab && i % 11 == 5) {
            o += (size_t)sprintf(doc + o, "<ab>%ld</ab>", (long)i - 1);
        }
    }
    o += (size_t)sprintf(doc + o, "<t>T</t></r>");
    d.doc = doc;
    d.body_off = open_end[d.descend];
    d.body_len = close_start[d.descend] - open_end[d.descend];
    mon_fp(0xDEE9 + d.n * 4 + (d.body ? 1 : 0) + (raise ? 2 : 0));
    struct aws_xml_parser_options opt;
    AWS_ZERO_STRUCT(opt);
    opt.doc = aws_byte_cursor_from_array(doc, o);
    opt.max_depth = d.max_depth;
    opt.on_root_encountered = deep_on_node;
    opt.user_data = &d;
    mon_poison_last_error(r);
    int rc = aws_xml_parse(mon_guard_allocator(), &opt);
    if (!d.bad) {
        if (rc != AWS_OP_SUCCESS) {
            mon_violation("C12:deep-chain:rejected", "well-formed document with a chain of %zu same-named elements (%s at level %zu, options.max_depth=%zu) was rejected: %s",
                          d.n, d.body ? "body read" : "skipped", d.descend, d.max_depth, aws_error_name(aws_last_error()));
        } else if (!d.acted || !d.tail_seen) {
            mon_violation("C12:deep-chain:sibling", "chain of %zu same-named elements, %s at level %zu (options.max_depth=%zu): aws_xml_parse succeeded but %s was never reported",
                          d.n, d.body ? "body read" : "skipped", d.descend, d.max_depth, d.acted ? "the following sibling <t>" : "the chain element");
        }
    }
    free(doc);
    free(open_end);
    free(close_start);
    mon_flag(F_DEEP_SAME_NAME_CHAIN);
    if (d.n >= 256) {
        mon_count("same_name_chains_of_256_or_more_skipped_or_read", 1);
    }
}

int main(int argc, char **argv) {
    mon_init(argc, argv, "C12");
    aws_common_library_init(aws_default_allocator());
    static const char *const names[F_NFLAGS] = {
        "body_or_skip_over_same_name_descendant",
        "body_or_skip_over_prefix_extending_descendant",
        "skip_then_sibling_reported",
        "body_then_sibling_reported",
        "skip_or_body_then_same_name_sibling",
        "ten_attributes",
        "node_at_max_depth_minus_2",
        "custom_max_depth",
        "custom_max_depth_deeper_than_default",
        "xml_declaration_preamble",
        "doctype_or_comment_preamble",
        "leading_whitespace",
        "empty_body_read",
        "whitespace_only_body_read",
        "body_with_child_markup_read",
        "name_255_or_256_body_or_skip",
        "callback_abort",
        "rejected_over_deep",
        "rejected_long_name",
        "rejected_11_attributes",
        "rejected_root_unclosed",
        "rejected_truncated",
        "depth_boundary_document",
        "text_containing_gt",
        "descend_into_childless_element",
        "long_name_descend_accepted",
        "scripted_regression_document",
        "root_read_as_body_or_skipped",
        "callback_ignored_depth_limit_failure",
        "long_same_name_chain_skipped_or_read",
    };
    for (int i = 0; i < F_NFLAGS; ++i) {
        mon_flag_name(i, names[i]);
    }
    uint64_t c;
    while (mon_next_case(&c)) {
        mon_case_begin(c);
        if (c >= (uint64_t)NSCRIPT && c % 64 == 63) {
            deep_chain_case();
            mon_case_end(true);
            continue;
        }
        bool nontrivial = run_case(c);
        mon_case_end(nontrivial);
    }
    return mon_finish();
}
