/*
 * C07 - task scheduler: every task incarnation is invoked exactly once, never early, in time order
 * (DESIGN.md section 5, C07).
 *
 * The oracle is a reference scheduler kept in step with the real one:
 *   slot state  IDLE | ASAP (run-now FIFO, ordered by schedule sequence) | TIMED (time) | BATCH (moved into the
 *   batch of the run_all call that is executing and not yet invoked)
 * Every task function logs its invocation, is checked against the reference (is this task allowed to be invoked
 * here, with this status, at this position of the batch), updates the reference and then executes a PRNG-chosen
 * script through the real API: schedule fresh tasks now / in the past / at the current time / in the future,
 * re-schedule its own aws_task, cancel other pending tasks (preferably ones that sit in the running batch).
 * Cancelled tasks run their own scripts nested inside aws_task_scheduler_cancel_task.
 *
 * Documented behaviour encoded here (not more):
 *  - aws_task_scheduler_cancel_task invokes the task with CANCELED even when it is not scheduled; the harness
 *    therefore only cancels tasks that are pending in the reference.
 *  - the order of timed tasks with EQUAL timestamps is unspecified; the order of tasks inside clean_up is not
 *    checked (only: status CANCELED, every pending incarnation exactly once, tasks scheduled during clean_up too).
 *  - has_tasks / next time are compared at top level only (inside a batch the detached tasks are not reported).
 *  - "a task must remain in memory until its function is executed": the aws_task is released inside its function
 *    (freed at once under ASan in half of the cases; otherwise quarantined with a byte snapshot that must stay
 *    unchanged, which also keeps a double invocation observable instead of a wild jump).
 */
#include "mon.h"

#include <aws/common/common.h>
#include <aws/common/task_scheduler.h>

#include <setjmp.h>
#include <signal.h>
#include <stdlib.h>
#include <unistd.h>

#define MAX_SLOTS 40
#define MAX_INC 4096
#define MAX_LOG 4096
#define MAX_CX 200
#define MAX_GEN 3
#define HIST_CAP 2600
#define HANG_SECONDS 60 /* a case normally takes about a millisecond */

enum { S_IDLE, S_ASAP, S_TIMED, S_BATCH };
enum { CX_RUN, CX_CLEAN, CX_CANCEL, CX_INTASK };
#define INC_GHOST (-2) /* CX_CANCEL target that was only aws_task_init()-ed, never scheduled */

enum {
    F_SCRIPT_NOW, F_SCRIPT_PAST, F_SCRIPT_CURRENT, F_SCRIPT_FUTURE, F_RESCHED_SELF, F_CANCEL_IN_BATCH, F_CANCEL_ASAP,
    F_CANCEL_TIMED, F_NESTED_CANCEL, F_EQUAL_TIMES, F_TIME_MAX, F_TIMED_ZERO, F_CLEANUP_PENDING, F_CLEANUP_LOOPED,
    F_RUN_BACKWARDS, F_NOT_DUE_LEFT, F_HEAP_GREW, F_MIXED_BATCH, F_SELF_CANCEL, F_CANCEL_NEW_IN_BATCH, F_JUST_EARLY,
    F_EXACTLY_DUE, F_TOP_CANCEL, F_RUN_EMPTY, F_CANCEL_UNSCHEDULED, F_CANCEL_UNSCHEDULED_HEAP, F_CLEANUP_CHAIN_17, F_DIRTY_NODE,
    F_BURST_OF_DUE_TIMERS
};

struct slot {
    struct aws_task *task; /* struct of the pending incarnation, NULL when idle */
    int state;
    int inc;      /* pending incarnation or -1 */
    int last_inc; /* last incarnation that used this slot */
};

struct inc {
    int slot;
    uint64_t time;
    bool now;
    uint64_t seq;
    int gen;
    uint32_t sched_serial; /* serial of the run_all/clean_up during which it was scheduled */
    bool from_script;
    int invocations;
    int status;
    int chain;  /* > 0: when invoked (either status) the function schedules a successor carrying chain-1 */
    int cdepth; /* generations this chain has advanced inside the current clean_up call */
};

struct ctx {
    int kind;
    int inc; /* CX_CANCEL: target, CX_INTASK: running incarnation */
    bool delivered;
};

struct logent {
    int inc;
    int status;
    int depth;
};

struct retired {
    struct aws_task *p;
    struct aws_task snap;
    int inc;
};

static struct aws_task_scheduler s_sched;
static struct slot s_slots[MAX_SLOTS];
static struct inc s_inc[MAX_INC];
static int s_ninc, s_audit_from;
static struct ctx s_cx[MAX_CX];
static int s_ncx;
static struct logent s_log[MAX_LOG];
static int s_nlog;
static int s_batch[MAX_SLOTS]; /* incarnations of the running batch in reference order */
static int s_nbatch;
static struct retired *s_ret;
static int s_nret, s_ret_checked;
static bool s_quarantine;
static uint64_t s_now, s_prev_time, s_base, s_seq;
static int s_style;
static uint32_t s_serial;
static uint64_t s_viol0; /* violation count at the start of the case */
static uint64_t s_callbacks, s_script_actions, s_batch_tasks;
static unsigned s_max_batch;
static bool s_saw_reentrant, s_saw_batch2;
static char s_hist[HIST_CAP + 400];
static size_t s_hist_len;

/* ------------------------------------------------------------------ history text */
static void hist(const char *fmt, ...) __attribute__((format(printf, 1, 2)));
static void hist(const char *fmt, ...) {
    char tmp[160];
    va_list ap;
    va_start(ap, fmt);
    int n = vsnprintf(tmp, sizeof(tmp), fmt, ap);
    va_end(ap);
    if (n <= 0) {
        return;
    }
    if ((size_t)n >= sizeof(tmp)) {
        n = (int)sizeof(tmp) - 1;
    }
    mon_sample("%s", tmp);
    if (s_hist_len + (size_t)n > HIST_CAP) {
        size_t drop = HIST_CAP / 2;
        memmove(s_hist, s_hist + drop, s_hist_len - drop);
        s_hist_len -= drop;
    }
    memcpy(s_hist + s_hist_len, tmp, (size_t)n);
    s_hist_len += (size_t)n;
    s_hist[s_hist_len] = 0;
}

static const char *tstr(uint64_t t) {
    static char bufs[4][32];
    static int which;
    char *b = bufs[which++ & 3];
    if (t >= UINT64_MAX - 2000) {
        if (t == UINT64_MAX) {
            snprintf(b, 32, "MAX");
        } else {
            snprintf(b, 32, "MAX-%llu", (unsigned long long)(UINT64_MAX - t));
        }
    } else {
        snprintf(b, 32, "%llu", (unsigned long long)t);
    }
    return b;
}

static const char *inc_str(int ii) {
    static char bufs[4][80];
    static int which;
    char *b = bufs[which++ & 3];
    if (ii < 0 || ii >= s_ninc) {
        snprintf(b, 80, ii == INC_GHOST ? "(task never given to the scheduler)" : "(none)");
        return b;
    }
    const struct inc *in = &s_inc[ii];
    if (in->now) {
        snprintf(b, 80, "s%d#%d(now,seq%llu)", in->slot, ii, (unsigned long long)in->seq);
    } else {
        snprintf(b, 80, "s%d#%d(@%s)", in->slot, ii, tstr(in->time));
    }
    return b;
}

static const char *where(void) {
    static char b[96];
    int outer = -1;
    for (int i = 0; i < s_ncx; ++i) {
        if (s_cx[i].kind == CX_RUN || s_cx[i].kind == CX_CLEAN) {
            outer = s_cx[i].kind;
            break;
        }
    }
    snprintf(b, sizeof(b), "%s%s%s depth=%d", outer == CX_RUN ? "run_all(" : outer == CX_CLEAN ? "clean_up" : "top-level",
             outer == CX_RUN ? tstr(s_now) : "", outer == CX_RUN ? ")" : "", s_ncx);
    return b;
}

#define VIOL(key, fmt, ...) mon_violation((key), fmt " | in %s | history tail: %s", __VA_ARGS__, where(), s_hist)

static uint64_t sat_add(uint64_t a, uint64_t b) {
    return a > UINT64_MAX - b ? UINT64_MAX : a + b;
}
static uint64_t sat_sub(uint64_t a, uint64_t b) {
    return a < b ? 0 : a - b;
}

/* ------------------------------------------------------------------ reference queries */
static int count_state(int st) {
    int n = 0;
    for (int i = 0; i < MAX_SLOTS; ++i) {
        n += s_slots[i].state == st;
    }
    return n;
}

static int count_pending(void) {
    return MAX_SLOTS - count_state(S_IDLE);
}

static bool ref_min_timed(uint64_t *out) {
    bool any = false;
    uint64_t m = UINT64_MAX;
    for (int i = 0; i < MAX_SLOTS; ++i) {
        if (s_slots[i].state == S_TIMED) {
            uint64_t t = s_inc[s_slots[i].inc].time;
            if (!any || t < m) {
                m = t;
            }
            any = true;
        }
    }
    *out = m;
    return any;
}

static int find_idle_slot(struct mon_rng *r) {
    int start = (int)mon_below(r, MAX_SLOTS);
    for (int k = 0; k < MAX_SLOTS; ++k) {
        int i = (start + k) % MAX_SLOTS;
        if (s_slots[i].state == S_IDLE) {
            return i;
        }
    }
    return -1;
}

/* ------------------------------------------------------------------ released task structs */
static void retire(struct aws_task *task, int ii) {
    if (s_quarantine) {
        s_ret[s_nret].p = task;
        memcpy(&s_ret[s_nret].snap, task, sizeof(*task));
        s_ret[s_nret].inc = ii;
        ++s_nret;
    } else {
        memset(task, 0xDD, sizeof(*task));
        free(task);
    }
}

static void check_retired(int from) {
    for (int k = from; k < s_nret; ++k) {
        if (memcmp(s_ret[k].p, &s_ret[k].snap, sizeof(struct aws_task))) {
            /* report offsets and byte values only (no pointers: witnesses must not depend on addresses) */
            const uint8_t *was = (const uint8_t *)&s_ret[k].snap, *is = (const uint8_t *)s_ret[k].p;
            size_t first = 0, ndiff = 0;
            for (size_t b = sizeof(struct aws_task); b-- > 0;) {
                if (was[b] != is[b]) {
                    first = b;
                    ++ndiff;
                }
            }
            VIOL("C07:task-touched-after-invocation",
                 "aws_task of %s was modified after its function had been entered: %zu bytes differ, first at offset %zu "
                 "(%02x -> %02x; offsetof(abi_extension)=%zu, node=%zu, priority_queue_node=%zu)",
                 inc_str(s_ret[k].inc), ndiff, first, was[first], is[first], offsetof(struct aws_task, abi_extension),
                 offsetof(struct aws_task, node), offsetof(struct aws_task, priority_queue_node));
            memcpy(&s_ret[k].snap, s_ret[k].p, sizeof(struct aws_task));
        }
    }
}

static void free_retired(void) {
    check_retired(0);
    for (int k = 0; k < s_nret; ++k) {
        free(s_ret[k].p);
    }
    s_nret = 0;
    s_ret_checked = 0;
}

/* ------------------------------------------------------------------ scheduling through the real API + reference */
static void task_fn(struct aws_task *task, void *arg, enum aws_task_status status);

static int new_inc(int si, bool now, uint64_t t, int gen, bool from_script) {
    int ii = s_ninc++;
    struct inc *in = &s_inc[ii];
    memset(in, 0, sizeof(*in));
    in->slot = si;
    in->now = now;
    in->time = now ? 0 : t;
    in->seq = ++s_seq;
    in->gen = gen;
    in->sched_serial = s_serial;
    in->from_script = from_script;
    in->status = -1;
    return ii;
}

/* task==NULL: fresh aws_task; otherwise the caller's own (just executed) aws_task is scheduled again */
static int do_schedule(int si, struct aws_task *task, bool now, uint64_t t, int gen, bool from_script) {
    struct slot *sl = &s_slots[si];
    if (!task) {
        task = malloc(sizeof(struct aws_task));
        memset(task, 0xA5, sizeof(*task));
        aws_task_init(task, task_fn, sl, "c07");
        if (mon_chance(&mon_case_rng, 1, 4)) {
            /* the task comes from a caller-side hand-over list that was drained by walking it and re-initialising its head:
             * task->node still carries links (to the caller's list head). The scheduler owns the node from here on and
             * must not take those links for its own. */
            static struct aws_linked_list s_handover[MAX_SLOTS];
            struct aws_linked_list *hl = &s_handover[si];
            aws_linked_list_init(hl);
            aws_linked_list_push_back(hl, &task->node);
            aws_linked_list_init(hl);
            mon_flag(F_DIRTY_NODE);
        }
    }
    int ii = new_inc(si, now, t, gen, from_script);
    sl->task = task;
    sl->inc = ii;
    sl->last_inc = ii;
    sl->state = now ? S_ASAP : S_TIMED;
    mon_fp(now ? 0x10 : 0x11);
    mon_fp((uint64_t)si);
    mon_fp(t);
    if (now) {
        aws_task_scheduler_schedule_now(&s_sched, task);
    } else {
        aws_task_scheduler_schedule_future(&s_sched, task, t);
        if (t == UINT64_MAX) {
            mon_flag(F_TIME_MAX);
        }
        if (t == 0) {
            mon_flag(F_TIMED_ZERO);
        }
    }
    return ii;
}

static void do_cancel(int si) {
    struct slot *sl = &s_slots[si];
    int ii = sl->inc;
    if (s_ncx >= MAX_CX - 2) {
        return;
    }
    mon_fp(0x20);
    mon_fp((uint64_t)si);
    if (sl->state == S_BATCH) {
        mon_flag(F_CANCEL_IN_BATCH);
        mon_count("cancel_of_task_in_running_batch", 1);
    } else if (sl->state == S_ASAP) {
        mon_flag(F_CANCEL_ASAP);
        if (s_ncx && s_inc[ii].sched_serial == s_serial) {
            mon_flag(F_CANCEL_NEW_IN_BATCH);
        }
    } else {
        mon_flag(F_CANCEL_TIMED);
        if (s_ncx && s_inc[ii].sched_serial == s_serial) {
            mon_flag(F_CANCEL_NEW_IN_BATCH);
        }
    }
    int nested = 0;
    for (int i = 0; i < s_ncx; ++i) {
        nested += s_cx[i].kind == CX_CANCEL;
    }
    if (nested >= 1) {
        mon_flag(F_NESTED_CANCEL);
    }
    if (s_ncx == 0) {
        mon_flag(F_TOP_CANCEL);
    }
    hist(" cancel(%s){", inc_str(ii));
    s_cx[s_ncx].kind = CX_CANCEL;
    s_cx[s_ncx].inc = ii;
    s_cx[s_ncx].delivered = false;
    int my = s_ncx++;
    aws_task_scheduler_cancel_task(&s_sched, sl->task);
    bool delivered = s_cx[my].delivered;
    s_ncx = my;
    hist("}");
    if (!delivered) {
        VIOL("C07:cancel-not-invoked", "cancel_task(%s) returned without invoking the task", inc_str(ii));
        /* resynchronise: the reference treats it as gone; its struct stays allocated (the library may hold it) */
        if (s_slots[si].inc == ii) {
            for (int k = 0; k < s_nbatch; ++k) {
                if (s_batch[k] == ii) {
                    s_batch[k] = -1;
                }
            }
            s_slots[si].state = S_IDLE;
            s_slots[si].inc = -1;
            s_slots[si].task = NULL;
        }
    }
}

/* Cancel of a task the scheduler has never seen (fresh from aws_task_init). Callers rely on this: the thread scheduler
 * cancels hand-over-queue tasks this way. Its function is invoked once, as cancelled; every task that WAS handed to
 * the scheduler must be left alone (check_top afterwards compares has_tasks/next time with the reference). */
struct ghost {
    int invocations;
    int status;
    struct aws_task *task;
};

static void ghost_fn(struct aws_task *task, void *arg, enum aws_task_status status) {
    struct ghost *g = arg;
    ++s_callbacks;
    ++g->invocations;
    g->status = (int)status;
    hist(" [ghost:%c]", status == AWS_TASK_STATUS_CANCELED ? 'C' : status == AWS_TASK_STATUS_RUN_READY ? 'R' : '?');
    struct ctx *top = s_ncx ? &s_cx[s_ncx - 1] : NULL;
    if (g->task != task) {
        VIOL("C07:cancel-unscheduled-arg", "never-scheduled task invoked with aws_task %p, expected %p", (void *)task,
             (void *)g->task);
    }
    if (!top || top->kind != CX_CANCEL || top->inc != INC_GHOST) {
        VIOL("C07:unexpected-invocation", "never-scheduled task invoked (status %d) outside its own cancel_task call", (int)status);
    } else if (top->delivered) {
        VIOL("C07:invoked-twice", "never-scheduled task invoked again by its cancel_task (invocation %d)", g->invocations);
    } else {
        top->delivered = true;
        if (status != AWS_TASK_STATUS_CANCELED) {
            VIOL("C07:cancel-status", "cancel_task(never-scheduled task) invoked it with status %d", (int)status);
        }
    }
}

static void do_cancel_unscheduled(void) {
    if (s_ncx >= MAX_CX - 2) {
        return;
    }
    struct ghost g = {0, -1, NULL};
    struct aws_task *task = malloc(sizeof(struct aws_task));
    memset(task, 0xA5, sizeof(*task));
    aws_task_init(task, ghost_fn, &g, "c07-unscheduled");
    g.task = task;
    mon_fp(0x21);
    mon_flag(F_CANCEL_UNSCHEDULED);
    if (count_state(S_TIMED)) {
        mon_flag(F_CANCEL_UNSCHEDULED_HEAP);
        mon_count("cancel_of_never_scheduled_task_while_timed_pending", 1);
    }
    hist(" cancel(ghost){");
    s_cx[s_ncx].kind = CX_CANCEL;
    s_cx[s_ncx].inc = INC_GHOST;
    s_cx[s_ncx].delivered = false;
    int my = s_ncx++;
    aws_task_scheduler_cancel_task(&s_sched, task);
    bool delivered = s_cx[my].delivered;
    s_ncx = my;
    hist("}");
    if (!delivered) {
        VIOL("C07:cancel-not-invoked", "cancel_task(never-scheduled task) returned without invoking it (%d timed, %d run-now pending)",
             count_state(S_TIMED), count_state(S_ASAP));
    }
    if (mon_violations() == s_viol0) {
        free(task); /* on divergence the library may still reference it */
    }
}

/* ------------------------------------------------------------------ the task function */
static void check_run_position(int ii, enum aws_task_status status) {
    struct inc *in = &s_inc[ii];
    struct slot *sl = &s_slots[in->slot];
    if (status != AWS_TASK_STATUS_RUN_READY) {
        VIOL("C07:run-status", "run_all invoked %s with status %d", inc_str(ii), (int)status);
    }
    if (sl->state != S_BATCH) {
        if (in->sched_serial == s_serial) {
            VIOL("C07:ran-in-same-batch", "%s was scheduled from inside this run_all(%s) and ran in the same call",
                 inc_str(ii), tstr(s_now));
        } else if (!in->now && in->time > s_now) {
            VIOL("C07:ran-early", "%s invoked by run_all(%s)", inc_str(ii), tstr(s_now));
        } else {
            VIOL("C07:not-in-batch", "%s invoked by run_all(%s) but the reference batch does not contain it",
                 inc_str(ii), tstr(s_now));
        }
        return;
    }
    int k;
    for (k = 0; k < s_nbatch && s_batch[k] != ii; ++k) {
    }
    for (int j = 0; j < s_nbatch; ++j) {
        int jj = s_batch[j];
        if (jj < 0 || jj == ii || s_slots[s_inc[jj].slot].inc != jj || s_slots[s_inc[jj].slot].state != S_BATCH) {
            continue; /* already invoked or cancelled */
        }
        const struct inc *o = &s_inc[jj];
        if (in->now) {
            if (o->now && j < k) {
                VIOL("C07:asap-order", "run-now task %s ran before the earlier scheduled run-now task %s", inc_str(ii),
                     inc_str(jj));
                return;
            }
        } else if (o->now) {
            VIOL("C07:timed-before-asap", "timed task %s ran while run-now task %s of the same batch had not run",
                 inc_str(ii), inc_str(jj));
            return;
        } else if (o->time < in->time) {
            VIOL("C07:time-order", "timed task %s ran before %s of the same batch", inc_str(ii), inc_str(jj));
            return;
        }
    }
}

static void run_script(struct slot *sl, struct aws_task *task, int ii, enum aws_task_status status);

static void task_fn(struct aws_task *task, void *arg, enum aws_task_status status) {
    struct slot *sl = arg;
    int si = (int)(sl - s_slots);
    ++s_callbacks;
    if (sl->state == S_IDLE || sl->task != task) {
        int prev = -1;
        for (int k = s_nret - 1; k >= 0; --k) {
            if (s_ret[k].p == task) {
                prev = s_ret[k].inc;
                break;
            }
        }
        if (prev < 0 && sl->state == S_IDLE && sl->last_inc >= 0) {
            prev = sl->last_inc;
        }
        if (prev >= 0) {
            ++s_inc[prev].invocations;
            VIOL("C07:invoked-twice", "%s invoked again (invocation %d) with status %d; first invocation had status %d",
                 inc_str(prev), s_inc[prev].invocations, (int)status, s_inc[prev].status);
        } else {
            VIOL("C07:invoked-not-scheduled", "task function of slot %d called for an aws_task that is not pending", si);
        }
        hist(" !dup(s%d)", si);
        return;
    }
    int ii = sl->inc;
    struct inc *in = &s_inc[ii];
    ++in->invocations;
    in->status = (int)status;
    int depth = 0;
    for (int i = 0; i < s_ncx; ++i) {
        depth += s_cx[i].kind == CX_INTASK;
    }
    if (s_nlog < MAX_LOG) {
        s_log[s_nlog].inc = ii;
        s_log[s_nlog].status = (int)status;
        s_log[s_nlog].depth = depth;
        ++s_nlog;
    }
    hist(" [%s:%c", inc_str(ii), status == AWS_TASK_STATUS_RUN_READY ? 'R' : status == AWS_TASK_STATUS_CANCELED ? 'C' : '?');
    struct ctx *top = s_ncx ? &s_cx[s_ncx - 1] : NULL;
    if (!top || top->kind == CX_INTASK) {
        VIOL("C07:unexpected-invocation", "%s invoked (status %d) by a call that must not run tasks", inc_str(ii), (int)status);
    } else if (top->kind == CX_CANCEL) {
        if (top->delivered) {
            VIOL("C07:cancel-invoked-extra", "cancel_task(%s) also invoked %s", inc_str(top->inc), inc_str(ii));
        } else if (top->inc != ii) {
            VIOL("C07:cancel-invoked-other", "cancel_task(%s) invoked %s instead", inc_str(top->inc), inc_str(ii));
        } else {
            top->delivered = true;
            if (status != AWS_TASK_STATUS_CANCELED) {
                VIOL("C07:cancel-status", "cancel_task(%s) invoked the task with status %d", inc_str(ii), (int)status);
            }
        }
    } else if (top->kind == CX_RUN) {
        check_run_position(ii, status);
        ++s_batch_tasks;
    } else {
        if (status != AWS_TASK_STATUS_CANCELED) {
            VIOL("C07:cleanup-status", "clean_up invoked %s with status %d", inc_str(ii), (int)status);
        }
        if (in->sched_serial == s_serial && in->from_script) {
            mon_flag(F_CLEANUP_LOOPED);
        }
    }
    /* reference: the incarnation is consumed */
    sl->state = S_IDLE;
    sl->inc = -1;
    if (s_ncx < MAX_CX - 2) {
        s_cx[s_ncx].kind = CX_INTASK;
        s_cx[s_ncx].inc = ii;
        s_cx[s_ncx].delivered = false;
        int my = s_ncx++;
        run_script(sl, task, ii, status);
        s_ncx = my;
    } else {
        sl->task = NULL;
        retire(task, ii);
    }
    hist("]");
}

enum { A_NOW, A_PAST, A_CUR, A_FUT, A_CANCEL, A_SELF, A_GHOST };

static uint64_t script_time(struct mon_rng *r, int kind) {
    switch (kind) {
        case A_PAST:
            return sat_sub(s_now, 1 + mon_below(r, 3));
        case A_CUR:
            return s_now;
        default:
            return sat_add(s_now, 1 + mon_below(r, 3));
    }
}

static void flag_script_time(bool now, uint64_t t) {
    if (now) {
        mon_flag(F_SCRIPT_NOW);
    } else if (t < s_now) {
        mon_flag(F_SCRIPT_PAST);
    } else if (t == s_now) {
        mon_flag(F_SCRIPT_CURRENT);
    } else {
        mon_flag(F_SCRIPT_FUTURE);
    }
}

static void run_script(struct slot *sl, struct aws_task *task, int ii, enum aws_task_status status) {
    struct mon_rng *r = &mon_case_rng;
    int si = (int)(sl - s_slots);
    int gen = s_inc[ii].gen;
    bool may_schedule = gen < MAX_GEN && s_ninc < MAX_INC - 8;
    (void)status;
    unsigned pick = (unsigned)mon_below(r, 100);
    int nact = pick < 40 ? 0 : pick < 72 ? 1 : pick < 90 ? 2 : 3;
    int acts[4];
    for (int a = 0; a < nact; ++a) {
        unsigned k = (unsigned)mon_below(r, 10);
        acts[a] = k < 2 ? A_NOW : k < 3 ? A_PAST : k < 5 ? A_CUR : k < 6 ? A_FUT : A_CANCEL;
        if (acts[a] == A_CANCEL && mon_chance(r, 1, 8)) {
            acts[a] = A_GHOST;
        }
    }
    bool self = may_schedule && mon_chance(r, 1, 6);
    if (self) {
        int at = (int)mon_below(r, (uint64_t)nact + 1);
        for (int a = nact; a > at; --a) {
            acts[a] = acts[a - 1];
        }
        acts[at] = A_SELF;
        ++nact;
    } else {
        /* the function has been entered: the aws_task may be released now */
        sl->task = NULL;
        retire(task, ii);
        task = NULL;
    }
    mon_fp(0x30 + (uint64_t)nact);
    for (int a = 0; a < nact; ++a) {
        int act = acts[a];
        mon_fp(0x40 + (uint64_t)act);
        if (act == A_SELF) {
            if (sl->state != S_IDLE) {
                /* an earlier action of this script re-used the slot for a fresh task: keep the struct, give up */
                retire(task, ii);
                task = NULL;
                continue;
            }
            int kind = (int)mon_below(r, 4); /* A_NOW..A_FUT */
            uint64_t t = kind == A_NOW ? 0 : script_time(r, kind);
            flag_script_time(kind == A_NOW, t);
            mon_flag(F_RESCHED_SELF);
            mon_count("reschedule_own_task", 1);
            int ni = do_schedule(si, task, kind == A_NOW, t, gen + 1, true);
            task = NULL; /* owned by the new incarnation (it may even run, nested, before we return) */
            hist(" self->%s", inc_str(ni));
            s_saw_reentrant = true;
            ++s_script_actions;
        } else if (act == A_GHOST) {
            s_saw_reentrant = true;
            ++s_script_actions;
            do_cancel_unscheduled();
        } else if (act == A_CANCEL) {
            int cand[MAX_SLOTS], nc = 0;
            bool prefer_batch = mon_chance(r, 1, 2);
            if (prefer_batch) {
                for (int i = 0; i < MAX_SLOTS; ++i) {
                    if (s_slots[i].state == S_BATCH) {
                        cand[nc++] = i;
                    }
                }
            }
            if (!nc) {
                for (int i = 0; i < MAX_SLOTS; ++i) {
                    if (s_slots[i].state != S_IDLE) {
                        cand[nc++] = i;
                    }
                }
            }
            if (!nc) {
                continue;
            }
            int victim = cand[mon_below(r, (uint64_t)nc)];
            if (victim == si) {
                mon_flag(F_SELF_CANCEL); /* own task, re-scheduled by an earlier action of this script */
            }
            s_saw_reentrant = true;
            ++s_script_actions;
            do_cancel(victim);
        } else {
            if (!may_schedule) {
                continue;
            }
            int ns = find_idle_slot(r);
            if (ns < 0 || (ns == si && task)) {
                continue;
            }
            uint64_t t = act == A_NOW ? 0 : script_time(r, act);
            flag_script_time(act == A_NOW, t);
            int ni = do_schedule(ns, NULL, act == A_NOW, t, gen + 1, true);
            hist(" +%s", inc_str(ni));
            s_saw_reentrant = true;
            ++s_script_actions;
        }
    }
    if (task) {
        retire(task, ii);
    }
    /* chains: one successor per invocation, for as many generations as the head was given (not limited by MAX_GEN);
     * inside clean_up every generation needs another pass of its loop */
    int chain = s_inc[ii].chain;
    if (chain > 0 && s_ninc < MAX_INC - 8) {
        int ns = find_idle_slot(r);
        if (ns >= 0) {
            int kind = (int)mon_below(r, 4);
            uint64_t t = kind == A_NOW ? 0 : script_time(r, kind);
            int ni = do_schedule(ns, NULL, kind == A_NOW, t, gen, true);
            s_inc[ni].chain = chain - 1;
            bool in_cleanup = s_ncx > 0 && s_cx[0].kind == CX_CLEAN;
            s_inc[ni].cdepth = in_cleanup ? s_inc[ii].cdepth + 1 : 0;
            if (s_inc[ni].cdepth >= 17) {
                mon_flag(F_CLEANUP_CHAIN_17);
            }
            mon_count_max("max_generations_unwound_by_one_clean_up", (uint64_t)s_inc[ni].cdepth);
            hist(" chain%d->%s", chain, inc_str(ni));
            s_saw_reentrant = true;
            ++s_script_actions;
        }
    }
}

/* ------------------------------------------------------------------ top-level checks */
static void check_top(const char *after) {
    uint64_t want_t;
    bool want;
    if (count_state(S_ASAP)) {
        want = true;
        want_t = 0;
    } else {
        want = ref_min_timed(&want_t);
    }
    uint64_t got_t = 0x5A5A5A5A5A5A5A5AULL;
    bool got = aws_task_scheduler_has_tasks(&s_sched, &got_t);
    if (got != want) {
        VIOL("C07:has-tasks", "after %s: has_tasks = %d, reference %d (%d run-now, %d timed pending)", after, (int)got,
             (int)want, count_state(S_ASAP), count_state(S_TIMED));
    }
    if (got_t != want_t) {
        VIOL("C07:next-time", "after %s: next task time %s, reference %s (%d run-now, %d timed pending)", after,
             tstr(got_t), tstr(want_t), count_state(S_ASAP), count_state(S_TIMED));
    }
    bool got2 = aws_task_scheduler_has_tasks(&s_sched, NULL);
    if (got2 != want) {
        VIOL("C07:has-tasks", "after %s: has_tasks(NULL) = %d, reference %d", after, (int)got2, (int)want);
    }
    if (!aws_task_scheduler_is_valid(&s_sched)) {
        VIOL("C07:is-valid", "after %s: aws_task_scheduler_is_valid is false", after);
    }
    if (count_state(S_BATCH)) {
        VIOL("C07:harness", "reference has batch members at top level after %s", after);
    }
    check_retired(s_ret_checked);
    s_ret_checked = s_nret;
}

static void op_run_all(uint64_t t) {
    if (t < s_now) {
        mon_flag(F_RUN_BACKWARDS);
    }
    s_now = t;
    ++s_serial;
    s_nlog = 0;
    s_nbatch = 0;
    mon_fp(0x50);
    mon_fp(t);
    /* reference batch: run-now tasks by schedule sequence, then due timed tasks by time */
    for (;;) {
        int best = -1;
        for (int i = 0; i < MAX_SLOTS; ++i) {
            if (s_slots[i].state == S_ASAP && (best < 0 || s_inc[s_slots[i].inc].seq < s_inc[s_slots[best].inc].seq)) {
                best = i;
            }
        }
        if (best < 0) {
            break;
        }
        s_slots[best].state = S_BATCH;
        s_batch[s_nbatch++] = s_slots[best].inc;
    }
    int nasap = s_nbatch;
    bool equal_times = false, exactly_due = false, just_early = false;
    for (;;) {
        int best = -1;
        for (int i = 0; i < MAX_SLOTS; ++i) {
            if (s_slots[i].state != S_TIMED) {
                continue;
            }
            uint64_t ti = s_inc[s_slots[i].inc].time;
            if (ti > t) {
                if (ti - t == 1) {
                    just_early = true;
                }
                continue;
            }
            if (best < 0 || ti < s_inc[s_slots[best].inc].time ||
                (ti == s_inc[s_slots[best].inc].time && s_inc[s_slots[i].inc].seq < s_inc[s_slots[best].inc].seq)) {
                best = i;
            }
        }
        if (best < 0) {
            break;
        }
        uint64_t tb = s_inc[s_slots[best].inc].time;
        if (s_nbatch > nasap && s_inc[s_batch[s_nbatch - 1]].time == tb) {
            equal_times = true;
        }
        if (tb == t) {
            exactly_due = true;
        }
        s_slots[best].state = S_BATCH;
        s_batch[s_nbatch++] = s_slots[best].inc;
    }
    int expected[MAX_SLOTS];
    int nexpected = s_nbatch;
    memcpy(expected, s_batch, sizeof(int) * (size_t)s_nbatch);
    hist(" run_all(%s)<%d>", tstr(t), s_nbatch);
    s_cx[0].kind = CX_RUN;
    s_cx[0].inc = -1;
    s_cx[0].delivered = false;
    s_ncx = 1;
    aws_task_scheduler_run_all(&s_sched, t);
    s_ncx = 0;
    /* observed mechanisms */
    if (equal_times) {
        mon_flag(F_EQUAL_TIMES);
    }
    if (exactly_due) {
        mon_flag(F_EXACTLY_DUE);
    }
    if (just_early) {
        mon_flag(F_JUST_EARLY);
    }
    if (nasap && nexpected > nasap) {
        mon_flag(F_MIXED_BATCH);
    }
    if (nexpected == 0) {
        mon_flag(F_RUN_EMPTY);
    }
    if (nexpected >= 2) {
        s_saw_batch2 = true;
    }
    if ((unsigned)nexpected > s_max_batch) {
        s_max_batch = (unsigned)nexpected;
    }
    /* every member of the reference batch must have been invoked during this call */
    for (int k = 0; k < nexpected; ++k) {
        int ii = expected[k];
        struct slot *sl = &s_slots[s_inc[ii].slot];
        if (sl->inc == ii && sl->state == S_BATCH) {
            VIOL("C07:due-task-not-run", "run_all(%s) returned without invoking %s", tstr(t), inc_str(ii));
            sl->state = s_inc[ii].now ? S_ASAP : S_TIMED; /* the library presumably still holds it */
        }
    }
    /* batch log equality (second formulation, from the recorded log only):
     * set: every batch member exactly once in the log; entries made directly by run_all are batch members with RUN;
     * order: those entries are sorted by (run-now before timed; schedule sequence | time). */
    int prev = -1;
    for (int e = 0; e < s_nlog; ++e) {
        if (s_log[e].depth != 0) {
            continue;
        }
        int ii = s_log[e].inc;
        bool member = false;
        for (int k = 0; k < nexpected; ++k) {
            member |= expected[k] == ii;
        }
        if (!member || s_log[e].status != AWS_TASK_STATUS_RUN_READY) {
            VIOL("C07:batch-log-set", "run_all(%s) directly invoked %s (status %d), reference batch has %d members, member=%d",
                 tstr(t), inc_str(ii), s_log[e].status, nexpected, (int)member);
            continue;
        }
        if (prev >= 0) {
            const struct inc *a = &s_inc[prev], *b = &s_inc[ii];
            bool ok = a->now ? (!b->now || a->seq < b->seq) : (!b->now && a->time <= b->time);
            if (!ok) {
                VIOL("C07:batch-log-order", "run_all(%s) log has %s before %s", tstr(t), inc_str(prev), inc_str(ii));
            }
        }
        prev = ii;
    }
    for (int k = 0; k < nexpected; ++k) {
        int n = 0, direct = 0;
        for (int e = 0; e < s_nlog; ++e) {
            if (s_log[e].inc == expected[k]) {
                ++n;
                direct += s_log[e].depth == 0;
            }
        }
        if (n != 1 && s_nlog < MAX_LOG) {
            VIOL("C07:batch-log-set", "run_all(%s): batch member %s appears %d times in the invocation log (%d direct)",
                 tstr(t), inc_str(expected[k]), n, direct);
        }
    }
    if (count_state(S_TIMED)) {
        mon_flag(F_NOT_DUE_LEFT);
    }
    s_nbatch = 0;
}

static void op_clean_up(struct aws_allocator *alloc, const struct mon_alloc_stats *st0, bool reinit) {
    int pending = count_pending();
    if (pending) {
        mon_flag(F_CLEANUP_PENDING);
    }
    ++s_serial;
    s_nlog = 0;
    mon_fp(0x60);
    hist(" clean_up<%d>", pending);
    s_cx[0].kind = CX_CLEAN;
    s_cx[0].inc = -1;
    s_cx[0].delivered = false;
    s_ncx = 1;
    aws_task_scheduler_clean_up(&s_sched);
    s_ncx = 0;
    for (int i = 0; i < MAX_SLOTS; ++i) {
        if (s_slots[i].state != S_IDLE) {
            VIOL("C07:lost-at-cleanup", "clean_up returned and %s was never invoked", inc_str(s_slots[i].inc));
            /* the scheduler is gone, nothing references the struct any more */
            s_slots[i].state = S_IDLE;
            s_slots[i].inc = -1;
            free(s_slots[i].task);
            s_slots[i].task = NULL;
        }
    }
    for (int ii = s_audit_from; ii < s_ninc; ++ii) {
        if (s_inc[ii].invocations != 1) {
            VIOL("C07:exactly-once", "%s has %d invocations after clean_up", inc_str(ii), s_inc[ii].invocations);
        }
    }
    s_audit_from = s_ninc;
    struct mon_alloc_stats st1;
    mon_guard_stats(&st1);
    if (st1.live_blocks != st0->live_blocks) {
        VIOL("C07:leak", "allocator imbalance after clean_up: %lld blocks", (long long)(st1.live_blocks - st0->live_blocks));
    }
    check_retired(s_ret_checked);
    s_ret_checked = s_nret;
    if (reinit) {
        if (aws_task_scheduler_init(&s_sched, alloc)) {
            VIOL("C07:init", "re-init failed, error %d", aws_last_error());
        }
    }
}

static uint64_t gen_time(struct mon_rng *r) {
    uint64_t t;
    if (s_style == 0) {
        t = sat_add(s_base, mon_below(r, 4));
    } else {
        switch (mon_below(r, s_style == 2 ? 7 : 12)) {
            case 0:
                t = 0;
                break;
            case 1:
                t = 1;
                break;
            case 2:
                t = UINT64_MAX;
                break;
            case 3:
                t = UINT64_MAX - 1;
                break;
            case 4:
                t = s_prev_time;
                break;
            case 5:
                t = sat_sub(s_prev_time, 1);
                break;
            case 6:
            case 7:
                t = sat_add(s_now, mon_below(r, 4));
                break;
            case 8:
                t = sat_sub(s_now, mon_below(r, 4));
                break;
            case 9:
                t = sat_add(s_base, mon_below(r, 8));
                break;
            default:
                t = sat_add(s_base, mon_below(r, 1000));
                break;
        }
    }
    s_prev_time = t;
    return t;
}

static uint64_t gen_run_time(struct mon_rng *r) {
    int timed[MAX_SLOTS], nt = 0;
    for (int i = 0; i < MAX_SLOTS; ++i) {
        if (s_slots[i].state == S_TIMED) {
            timed[nt++] = i;
        }
    }
    uint64_t mn = 0;
    ref_min_timed(&mn);
    switch (mon_below(r, 12)) {
        case 0:
            return UINT64_MAX;
        case 1:
            return 0;
        case 2:
            return nt ? mn : s_now;
        case 3:
            return nt ? sat_sub(mn, 1) : s_now;
        case 4:
        case 5:
            return nt ? s_inc[s_slots[timed[mon_below(r, (uint64_t)nt)]].inc].time : s_now;
        case 6:
            return nt ? sat_sub(s_inc[s_slots[timed[mon_below(r, (uint64_t)nt)]].inc].time, 1) : s_now;
        case 7:
            return sat_add(s_now, mon_below(r, 4));
        case 8:
            return sat_sub(s_now, 1 + mon_below(r, 4));
        case 9:
            return UINT64_MAX - 1;
        default:
            return gen_time(r);
    }
}

static void run_case(uint64_t case_idx) {
    struct mon_rng *r = &mon_case_rng;
    (void)case_idx;
    static const uint64_t bases[] = {0, 1, 5, 1000, (uint64_t)1 << 32, (uint64_t)1 << 63, UINT64_MAX - 1500, UINT64_MAX - 3};
    for (int i = 0; i < MAX_SLOTS; ++i) {
        s_slots[i].task = NULL;
        s_slots[i].state = S_IDLE;
        s_slots[i].inc = -1;
        s_slots[i].last_inc = -1;
    }
    s_ninc = s_audit_from = 0;
    s_ncx = s_nlog = s_nbatch = 0;
    s_nret = s_ret_checked = 0;
    s_seq = 0;
    s_serial = 0;
    s_hist_len = 0;
    s_hist[0] = 0;
    s_saw_reentrant = s_saw_batch2 = false;
    s_viol0 = mon_violations();
    s_style = (int)mon_below(r, 3);
    s_base = bases[mon_below(r, sizeof(bases) / sizeof(bases[0]))];
    s_now = mon_chance(r, 1, 2) ? s_base : 0;
    s_prev_time = s_base;
#if defined(__SANITIZE_ADDRESS__)
    s_quarantine = mon_chance(r, 1, 2);
#else
    s_quarantine = true; /* without ASan a freed aws_task would make a double invocation a wild jump */
#endif
    mon_fp((uint64_t)s_style);
    mon_fp(s_base);
    mon_fp(s_quarantine);
    struct aws_allocator *alloc = mon_guard_allocator();
    struct mon_alloc_stats st0;
    mon_guard_stats(&st0);
    if (aws_task_scheduler_init(&s_sched, alloc)) {
        mon_violation("C07:init", "init failed, error %d", aws_last_error());
        return;
    }
    size_t cap0 = aws_priority_queue_capacity(&s_sched.timed_queue);
    hist("style=%d base=%s %s:", s_style, tstr(s_base), s_quarantine ? "quarantine" : "free-in-fn");
    check_top("init");
    size_t nops = 10 + (size_t)mon_below(r, 191);
    size_t done_ops = 0;
    for (size_t op = 0; op < nops && mon_violations() == s_viol0 && s_ninc < MAX_INC - 64; ++op, ++done_ops) {
        unsigned phase = (unsigned)((op * 4) / nops);
        unsigned w_sched = (phase == 0 || phase == 2) ? 62 : 30;
        unsigned pick = (unsigned)mon_below(r, 100);
        const char *what;
        if (pick < w_sched) {
            int si = find_idle_slot(r);
            if (si < 0) {
                what = "skip";
            } else {
                int ii;
                if (mon_chance(r, 2, 5)) {
                    ii = do_schedule(si, NULL, true, 0, 0, false);
                    hist(" now(%s)", inc_str(ii));
                    what = "schedule_now";
                } else {
                    uint64_t t = gen_time(r);
                    ii = do_schedule(si, NULL, false, t, 0, false);
                    hist(" fut(%s)", inc_str(ii));
                    what = "schedule_future";
                }
                if (mon_chance(r, 1, 30)) {
                    s_inc[ii].chain = 3 + (int)mon_below(r, 60);
                    hist("(chain %d)", s_inc[ii].chain);
                }
            }
        } else if (pick < w_sched + 12) {
            int cand[MAX_SLOTS], nc = 0;
            for (int i = 0; i < MAX_SLOTS; ++i) {
                if (s_slots[i].state != S_IDLE) {
                    cand[nc++] = i;
                }
            }
            what = "cancel_task";
            if (mon_chance(r, 1, 6)) {
                what = "cancel_task(never scheduled)";
                s_nlog = 0;
                do_cancel_unscheduled();
            } else if (nc) {
                s_nlog = 0;
                do_cancel(cand[mon_below(r, (uint64_t)nc)]);
            }
        } else if (pick < w_sched + 16) {
            mon_fp(0x70);
            what = "has_tasks";
        } else if (pick < w_sched + 18) {
            op_clean_up(alloc, &st0, true);
            what = "clean_up+init";
        } else {
            op_run_all(gen_run_time(r));
            what = "run_all";
        }
        if (aws_priority_queue_capacity(&s_sched.timed_queue) > cap0) {
            mon_flag(F_HEAP_GREW);
        }
        check_top(what);
    }
    if (mon_violations() != s_viol0) {
        /* reference and library have diverged: the witness is recorded, abandon the scheduler instead of driving a
         * library that is known to be inconsistent into clean_up (which loops until it believes to be empty) */
        s_nret = s_ret_checked = 0;
        s_ncx = 0;
    } else {
        op_clean_up(alloc, &st0, false);
        free_retired();
    }
    mon_count("top_level_ops", done_ops);
    mon_count("task_incarnations", (uint64_t)s_ninc);
    mon_count("invocations", s_callbacks);
    mon_count("invocations_by_run_all", s_batch_tasks);
    mon_count("script_actions", s_script_actions);
    mon_count_max("max_batch_size", s_max_batch);
    s_callbacks = s_batch_tasks = s_script_actions = 0;
}

static sigjmp_buf s_hang_jmp;
static volatile sig_atomic_t s_hang_armed;

static void on_alarm(int sig) {
    (void)sig;
    if (s_hang_armed) {
        siglongjmp(s_hang_jmp, 1);
    }
}

/* ------------------------------------------------------------------ a burst of timers
 * 20 000 .. 200 000 timed tasks that are all due by one run-all call (plus a few run-now tasks and one far-future task), handed
 * over in scrambled time order: that one call must run every one of them, in non-decreasing time order, the run-now tasks
 * first; afterwards only the far task is pending and the next-task-time is its time. Self-contained (own task pool, own
 * callback); run every 4096th case. */
struct burst_task {
    struct aws_task task;
    uint64_t when; /* 0: run-now */
    uint32_t runs, cancels;
};
static struct {
    struct burst_task *t;
    size_t n, invoked, order_errors, early;
    uint64_t now, last_when;
    bool seen_timed;
} B;

static void burst_fn(struct aws_task *task, void *arg, enum aws_task_status status) {
    (void)task;
    struct burst_task *bt = arg;
    if (status == AWS_TASK_STATUS_RUN_READY) {
        ++bt->runs;
        ++B.invoked;
        if (bt->when > B.now) {
            ++B.early;
        }
        if (bt->when == 0) {
            if (B.seen_timed) {
                ++B.order_errors;
            }
        } else {
            B.seen_timed = true;
            if (bt->when < B.last_when) {
                ++B.order_errors;
            }
            B.last_when = bt->when;
        }
    } else {
        ++bt->cancels;
    }
}

static void burst_case(void) {
    struct mon_rng *r = &mon_case_rng;
    static const size_t NN[] = {20000, 65535, 65536, 65537, 70000, 131073, 200000};
    size_t n = NN[mon_below(r, sizeof(NN) / sizeof(NN[0]))];
    size_t n_now = (size_t)mon_below(r, 50);
    memset(&B, 0, sizeof(B));
    B.n = n + n_now + 1;
    B.t = calloc(B.n, sizeof(*B.t));
    if (!B.t) {
        mon_count("burst_case_skipped_no_memory", 1);
        return;
    }
    mon_fp(0xB0057 + n);
    struct aws_task_scheduler sched;
    if (aws_task_scheduler_init(&sched, mon_guard_allocator())) {
        VIOL("C07:init-failed", "aws_task_scheduler_init failed (%d)", aws_last_error());
        free(B.t);
        return;
    }
    const uint64_t T = 1000000, FAR = 5 * T;
    bool distinct_times = mon_chance(r, 1, 2);
    for (size_t i = 0; i < B.n; ++i) {
        struct burst_task *bt = &B.t[i];
        aws_task_init(&bt->task, burst_fn, bt, "c07-burst");
        if (i < n) {
            bt->when = distinct_times ? 1 + (uint64_t)((i * 7919) % n) : 1 + mon_below(r, 1000); /* scrambled, all <= T */
            aws_task_scheduler_schedule_future(&sched, &bt->task, bt->when);
        } else if (i < n + n_now) {
            bt->when = 0;
            aws_task_scheduler_schedule_now(&sched, &bt->task);
        } else {
            bt->when = FAR;
            aws_task_scheduler_schedule_future(&sched, &bt->task, FAR);
        }
    }
    B.now = T;
    aws_task_scheduler_run_all(&sched, T);
    size_t due = n + n_now;
    if (B.invoked != due) {
        VIOL("C07:burst:not-run-when-due", "%zu timed and %zu run-now tasks were due at run_all(%llu): %zu ran, %zu were left waiting for a later call", n, n_now,
             (unsigned long long)T, B.invoked, due - B.invoked);
    }
    if (B.order_errors || B.early) {
        VIOL("C07:burst:order", "burst of %zu due tasks: %zu ran out of order, %zu before their time", due, B.order_errors, B.early);
    }
    uint64_t next = 0;
    bool has = aws_task_scheduler_has_tasks(&sched, &next);
    if (B.invoked == due && (!has || next != FAR)) {
        VIOL("C07:burst:next-time", "after the burst only the task at %llu is pending: has_tasks=%d next=%llu", (unsigned long long)FAR, (int)has, (unsigned long long)next);
    }
    aws_task_scheduler_clean_up(&sched);
    size_t bad = 0;
    for (size_t i = 0; i < B.n; ++i) {
        bad += (B.t[i].runs + B.t[i].cancels) != 1;
    }
    if (bad) {
        VIOL("C07:burst:exactly-once", "burst of %zu tasks: %zu were not invoked exactly once by run_all + clean_up", B.n, bad);
    }
    if (B.t[B.n - 1].cancels != 1 && !bad) {
        VIOL("C07:burst:exactly-once", "the far-future task was %s", B.t[B.n - 1].runs ? "run early" : "never cancelled by clean_up");
    }
    free(B.t);
    mon_flag(F_BURST_OF_DUE_TIMERS);
    mon_count("bursts_of_20000_to_200000_due_timers", 1);
}

int main(int argc, char **argv) {
    mon_init(argc, argv, "C07");
    aws_common_library_init(aws_default_allocator());
    static const char *names[] = {
        "script_schedules_now", "script_schedules_in_past", "script_schedules_at_current_time", "script_schedules_in_future",
        "task_reschedules_itself", "cancel_of_batch_member_not_yet_run", "cancel_in_run_now_list", "cancel_in_heap",
        "nested_cancel_from_cancelled_task", "equal_timestamps_in_batch", "timestamp_uint64_max", "timed_task_at_zero",
        "clean_up_with_pending_tasks", "clean_up_ran_task_scheduled_during_clean_up", "run_all_time_decreased",
        "run_all_left_not_due_tasks", "heap_grew_beyond_default", "batch_with_run_now_and_timed", "task_cancels_its_own_reschedule",
        "cancel_of_task_scheduled_during_batch", "task_due_one_tick_after_run_all_time", "task_due_exactly_at_run_all_time",
        "top_level_cancel", "run_all_with_nothing_due", "cancel_of_never_scheduled_task",
        "cancel_of_never_scheduled_task_while_heap_nonempty", "clean_up_unwound_chain_of_17_or_more_generations",
        "task_node_carried_stale_links_when_scheduled", "burst_of_20000_or_more_due_timers"};
    for (int i = 0; i < (int)(sizeof(names) / sizeof(names[0])); ++i) {
        mon_flag_name(i, names[i]);
    }
    s_ret = malloc(sizeof(struct retired) * MAX_INC);
    signal(SIGALRM, on_alarm);
    uint64_t c;
    while (mon_next_case(&c)) {
        mon_case_begin(c);
        /* hang backstop: a library call that never returns (e.g. clean_up looping over a task it never extracts)
         * is reported as C07:hang and the case abandoned; the single-threaded library holds no locks */
        if (sigsetjmp(s_hang_jmp, 1) == 0) {
            s_hang_armed = 1;
            alarm(HANG_SECONDS);
            if (c % 4096 == 4095) {
                burst_case();
            } else {
                run_case(c);
            }
            alarm(0);
            s_hang_armed = 0;
        } else {
            s_hang_armed = 0;
            VIOL("C07:hang", "a scheduler call did not return within %d s (%d tasks pending in the reference)", HANG_SECONDS,
                 count_pending());
            s_ncx = 0;
            s_nret = s_ret_checked = 0;
        }
        mon_case_end((c % 4096 == 4095) || (s_saw_reentrant && s_saw_batch2 && mon_flag_count() >= 5));
    }
    free(s_ret);
    return mon_finish();
}
