/*
 * C11 - JSON values survive serialise / parse, object and array access is coherent
 * (DESIGN.md section 5, C11).
 *
 * Oracle, in short:
 *   - a harness-side model tree (struct mnode) is the generating tree; library trees are built
 *     (a) through the API by small programs of add/get/has/remove calls checked against an ordered
 *     association list with ASCII-case-insensitive keys, or (b) by parsing text from the harness's own
 *     writer (escapes, number forms and whitespace the library's printer never emits);
 *   - every library tree is read back through the PUBLIC API only (is_x, get_x, const_iterate_x, get by
 *     index / key) into a model tree and compared with the generating tree;
 *   - compact and formatted output are (1) read by an independent strict RFC 8259 reader in this file,
 *     (2) re-parsed by the library, and both must give the generating tree: same structure, order, string
 *     bytes, booleans/nulls, numbers exact when strtod("%.15g") reproduces them, else within 2^-52 relative;
 *   - duplicate must read back identical and compare equal; allocator balance after destroy
 *     (the JSON module allocator is the guard allocator, so every cJSON node is counted);
 *   - a sample of (model text, compact, formatted) goes to py.<slice> for Python's json (tools/oracles/c11_json.py).
 */
#include "mon.h"

#include <aws/common/byte_buf.h>
#include <aws/common/common.h>
#include <aws/common/error.h>
#include <aws/common/json.h>

#include <float.h>
#include <limits.h>
#include <math.h>
#include <stdlib.h>

enum {
    F_API_BUILT,
    F_TEXT_PARSED,
    F_NUM_INT_FORMAT,
    F_NUM_15_DIGITS,
    F_NUM_17_DIGITS,
    F_NUM_EXPONENT_FORM,
    F_NUM_INEXACT_WITHIN_TOL,
    F_OUT_SHORT_ESCAPE,
    F_OUT_U_ESCAPE,
    F_OUT_RAW_HIGH_BYTES,
    F_IN_U_ESCAPE,
    F_IN_SURROGATE_PAIR,
    F_IN_SOLIDUS_ESCAPE,
    F_IN_EXPONENT_LITERAL,
    F_IN_WHITESPACE,
    F_DUP_KEY_REFUSED,
    F_CASE_VARIANT_KEY_REFUSED,
    F_CASE_VARIANT_LOOKUP,
    F_OBJECT_REMOVE,
    F_ARRAY_REMOVE_FIRST,
    F_ARRAY_REMOVE_MIDDLE,
    F_ARRAY_REMOVE_LAST,
    F_INDEX_EQ_SIZE,
    F_INDEX_BEYOND_SIZE,
    F_ABSENT_KEY,
    F_DEEP_CHAIN,
    F_PRINT_BUFFER_GREW,
    F_TEXT_DUPLICATE_KEYS,
    F_COMPARE_DUPLICATE,
    F_INVALID_UTF8_BYTES,
    F_ITERATE_EARLY_STOP,
    F_SWEEP,
    F_OPS_ON_DUPLICATE,
    F_WIDE_MANY_CONTAINERS,
    F_REKEY_VARIANT,
    F_REKEY_OTHER,
    F_NFLAGS
};
static const char *s_flag_names[F_NFLAGS] = {
    "tree_built_through_api", "tree_parsed_from_harness_text", "out_number_integer_format", "out_number_le15_digits",
    "out_number_16_17_digits", "out_number_exponent_form", "number_inexact_within_tolerance", "out_short_escape",
    "out_u00xx_escape", "out_raw_bytes_ge_0x80", "in_uXXXX_escape", "in_surrogate_pair", "in_escaped_solidus",
    "in_exponent_literal", "in_extra_whitespace", "duplicate_key_refused", "case_variant_key_refused",
    "case_variant_lookup", "object_member_removed", "array_remove_first", "array_remove_middle", "array_remove_last",
    "array_index_eq_size", "array_index_beyond_size", "absent_key_lookup", "deep_chain_ge_500", "print_buffer_grew_gt_256",
    "text_tree_duplicate_keys", "compare_duplicate_checked", "strings_with_invalid_utf8", "iterate_early_stop",
    "sweep_case", "container_ops_on_a_duplicate", "wide_tree_ge_1000_containers", "duplicated_member_added_under_case_variant_key",
    "duplicated_member_added_under_same_or_unrelated_key"};

#define MAX_DEPTH 8
#define OBJDEPTH_COMPARE_LIMIT 10 /* cJSON_Compare visits nested objects 2^depth times (see report) */

static struct aws_allocator *s_alloc;
static FILE *s_py;
static uint64_t s_case;

/* ------------------------------------------------------------------ growable byte buffer */
struct sbuf {
    char *p;
    size_t n, cap;
};
static void sb_reserve(struct sbuf *b, size_t more) {
    if (b->n + more + 1 > b->cap) {
        size_t nc = b->cap ? b->cap * 2 : 256;
        while (nc < b->n + more + 1) {
            nc *= 2;
        }
        b->p = realloc(b->p, nc);
        b->cap = nc;
    }
}
static void sb_put(struct sbuf *b, const void *src, size_t n) {
    sb_reserve(b, n);
    if (n) {
        memcpy(b->p + b->n, src, n);
    }
    b->n += n;
    b->p[b->n] = 0;
}
static void sb_c(struct sbuf *b, char c) {
    sb_put(b, &c, 1);
}
static void sb_s(struct sbuf *b, const char *s) {
    sb_put(b, s, strlen(s));
}
static void sb_free(struct sbuf *b) {
    free(b->p);
    b->p = NULL;
    b->n = b->cap = 0;
}

/* ------------------------------------------------------------------ model tree */
enum { K_NULL, K_FALSE, K_TRUE, K_NUM, K_STR, K_ARR, K_OBJ };
static const char *s_kind_names[] = {"null", "false", "true", "number", "string", "array", "object"};

struct mnode {
    int kind;
    double num;
    char *lit;     /* text mode: the literal the generator chose (value = strtod(lit)); else NULL */
    uint8_t *str;  /* K_STR, NUL-terminated copy, no embedded NUL */
    size_t slen;
    size_t n, cap; /* children */
    struct mnode **kid;
    uint8_t **key; /* K_OBJ: NUL-terminated copies */
    size_t *klen;
    struct aws_json_value *lib; /* identity token of the library value this node mirrors (never dereferenced) */
};

static uint8_t *dup_bytes(const void *p, size_t n) {
    uint8_t *d = malloc(n + 1);
    if (n) {
        memcpy(d, p, n);
    }
    d[n] = 0;
    return d;
}

static struct mnode *mn_new(int kind) {
    struct mnode *m = calloc(1, sizeof(*m));
    m->kind = kind;
    return m;
}

static struct mnode *mn_str(const void *p, size_t n) {
    struct mnode *m = mn_new(K_STR);
    m->str = dup_bytes(p, n);
    m->slen = n;
    return m;
}

static struct mnode *mn_num(double d) {
    struct mnode *m = mn_new(K_NUM);
    m->num = d;
    return m;
}

static void mn_free(struct mnode *m) {
    if (!m) {
        return;
    }
    for (size_t i = 0; i < m->n; ++i) {
        mn_free(m->kid[i]);
        if (m->key) {
            free(m->key[i]);
        }
    }
    free(m->kid);
    free(m->key);
    free(m->klen);
    free(m->str);
    free(m->lit);
    free(m);
}

static void mn_add(struct mnode *p, const void *key, size_t klen, struct mnode *kid) {
    if (p->n == p->cap) {
        p->cap = p->cap ? p->cap * 2 : 4;
        p->kid = realloc(p->kid, p->cap * sizeof(*p->kid));
        if (p->kind == K_OBJ) {
            p->key = realloc(p->key, p->cap * sizeof(*p->key));
            p->klen = realloc(p->klen, p->cap * sizeof(*p->klen));
        }
    }
    p->kid[p->n] = kid;
    if (p->kind == K_OBJ) {
        p->key[p->n] = dup_bytes(key, klen);
        p->klen[p->n] = klen;
    }
    ++p->n;
}

static void mn_remove_at(struct mnode *p, size_t i) {
    mn_free(p->kid[i]);
    if (p->kind == K_OBJ) {
        free(p->key[i]);
    }
    for (size_t j = i + 1; j < p->n; ++j) {
        p->kid[j - 1] = p->kid[j];
        if (p->kind == K_OBJ) {
            p->key[j - 1] = p->key[j];
            p->klen[j - 1] = p->klen[j];
        }
    }
    --p->n;
}

static size_t mn_count(const struct mnode *m) {
    size_t c = 1;
    for (size_t i = 0; i < m->n; ++i) {
        c += mn_count(m->kid[i]);
    }
    return c;
}

static size_t mn_depth(const struct mnode *m) {
    size_t d = 0;
    for (size_t i = 0; i < m->n; ++i) {
        size_t k = mn_depth(m->kid[i]);
        d = k > d ? k : d;
    }
    return d + ((m->kind == K_ARR || m->kind == K_OBJ) ? 1 : 0);
}

/* largest number of OBJECT nodes on a root-to-leaf path */
static size_t mn_objdepth(const struct mnode *m) {
    size_t d = 0;
    for (size_t i = 0; i < m->n; ++i) {
        size_t k = mn_objdepth(m->kid[i]);
        d = k > d ? k : d;
    }
    return d + (m->kind == K_OBJ ? 1 : 0);
}

static uint8_t fold(uint8_t c) {
    return (c >= 'A' && c <= 'Z') ? (uint8_t)(c + 32) : c;
}
/* the vendored lookup's documented behaviour: ASCII-case-insensitive key comparison */
static bool key_eq_fold(const uint8_t *a, size_t al, const uint8_t *b, size_t bl) {
    if (al != bl) {
        return false;
    }
    for (size_t i = 0; i < al; ++i) {
        if (fold(a[i]) != fold(b[i])) {
            return false;
        }
    }
    return true;
}
static bool key_eq(const uint8_t *a, size_t al, const uint8_t *b, size_t bl) {
    return al == bl && (al == 0 || !memcmp(a, b, al));
}
/* index of the first member whose key matches case-insensitively, or -1 */
static long mn_find(const struct mnode *o, const uint8_t *key, size_t klen) {
    for (size_t i = 0; i < o->n; ++i) {
        if (key_eq_fold(o->key[i], o->klen[i], key, klen)) {
            return (long)i;
        }
    }
    return -1;
}

/* does any object of the tree hold two members whose keys are equal (exactly / case-insensitively)? */
static bool mn_has_dupkeys(const struct mnode *m, bool folded) {
    if (m->kind == K_OBJ) {
        for (size_t i = 0; i < m->n; ++i) {
            for (size_t j = i + 1; j < m->n; ++j) {
                if (folded ? key_eq_fold(m->key[i], m->klen[i], m->key[j], m->klen[j])
                           : key_eq(m->key[i], m->klen[i], m->key[j], m->klen[j])) {
                    return true;
                }
            }
        }
    }
    for (size_t i = 0; i < m->n; ++i) {
        if (mn_has_dupkeys(m->kid[i], folded)) {
            return true;
        }
    }
    return false;
}

static uint64_t bits_of(double d) {
    uint64_t u;
    memcpy(&u, &d, 8);
    return u;
}
static double from_bits(uint64_t u) {
    double d;
    memcpy(&d, &u, 8);
    return d;
}

static void mn_fp(const struct mnode *m) {
    mon_fp((uint64_t)m->kind + 0x100 * m->n);
    if (m->kind == K_NUM) {
        mon_fp(bits_of(m->num));
    } else if (m->kind == K_STR) {
        uint64_t h = 1469598103934665603ULL;
        for (size_t i = 0; i < m->slen; ++i) {
            h = (h ^ m->str[i]) * 1099511628211ULL;
        }
        mon_fp(h);
    }
    for (size_t i = 0; i < m->n; ++i) {
        if (m->kind == K_OBJ) {
            uint64_t h = 1469598103934665603ULL;
            for (size_t k = 0; k < m->klen[i]; ++k) {
                h = (h ^ m->key[i][k]) * 1099511628211ULL;
            }
            mon_fp(h);
        }
        mn_fp(m->kid[i]);
    }
}

/* ------------------------------------------------------------------ UTF-8 helpers */
/* strict decode of one code point; returns its length or 0 if s does not start a well-formed sequence */
static size_t utf8_decode(const uint8_t *s, size_t n, uint32_t *cp) {
    if (n == 0) {
        return 0;
    }
    uint8_t c = s[0];
    if (c < 0x80) {
        *cp = c;
        return 1;
    }
    size_t len;
    uint32_t v, min;
    if (c >= 0xC2 && c <= 0xDF) {
        len = 2, v = c & 0x1F, min = 0x80;
    } else if ((c & 0xF0) == 0xE0) {
        len = 3, v = c & 0x0F, min = 0x800;
    } else if (c >= 0xF0 && c <= 0xF4) {
        len = 4, v = c & 0x07, min = 0x10000;
    } else {
        return 0;
    }
    if (n < len) {
        return 0;
    }
    for (size_t i = 1; i < len; ++i) {
        if ((s[i] & 0xC0) != 0x80) {
            return 0;
        }
        v = (v << 6) | (s[i] & 0x3F);
    }
    if (v < min || v > 0x10FFFF || (v >= 0xD800 && v <= 0xDFFF)) {
        return 0;
    }
    *cp = v;
    return len;
}

static size_t utf8_encode(uint32_t cp, uint8_t *out) {
    if (cp < 0x80) {
        out[0] = (uint8_t)cp;
        return 1;
    }
    if (cp < 0x800) {
        out[0] = (uint8_t)(0xC0 | (cp >> 6));
        out[1] = (uint8_t)(0x80 | (cp & 0x3F));
        return 2;
    }
    if (cp < 0x10000) {
        out[0] = (uint8_t)(0xE0 | (cp >> 12));
        out[1] = (uint8_t)(0x80 | ((cp >> 6) & 0x3F));
        out[2] = (uint8_t)(0x80 | (cp & 0x3F));
        return 3;
    }
    out[0] = (uint8_t)(0xF0 | (cp >> 18));
    out[1] = (uint8_t)(0x80 | ((cp >> 12) & 0x3F));
    out[2] = (uint8_t)(0x80 | ((cp >> 6) & 0x3F));
    out[3] = (uint8_t)(0x80 | (cp & 0x3F));
    return 4;
}

static bool utf8_valid(const uint8_t *s, size_t n) {
    size_t i = 0;
    while (i < n) {
        uint32_t cp;
        size_t l = utf8_decode(s + i, n - i, &cp);
        if (!l) {
            return false;
        }
        i += l;
    }
    return true;
}

/* ------------------------------------------------------------------ number tolerance (the property's rule) */
static bool exact15(double d) {
    char b[64];
    snprintf(b, sizeof(b), "%.15g", d);
    return strtod(b, NULL) == d;
}

/*
 * 0: got is acceptable and numerically equal; 1: acceptable, differs within tolerance; -1: refuted.
 * "unchanged when it has at most 15 significant decimal digits": strtod("%.15g" of want) == want => got == want
 * (numeric equality, so -0.0 and 0.0 are the same number).  Otherwise "within one part in 2^52": the bound is taken
 * relative to the larger magnitude of the two, which is the criterion the printer documents ("close enough" =
 * |a-b| <= max(|a|,|b|) * DBL_EPSILON).  Values for which only this symmetric reading holds (|got-want| exceeds
 * |want| * 2^-52 by less than one part in 2^52 of the bound, e.g. 1-2^-52 printed as "1") are counted, not alarmed.
 */
static uint64_t s_symmetric_only, s_inexact;
static int num_check(double want, double got) {
    if (got == want) {
        return 0;
    }
    if (isnan(got) || isinf(got)) {
        return -1;
    }
    if (exact15(want)) {
        return -1;
    }
    double diff = fabs(got - want);
    double big = fabs(got) > fabs(want) ? fabs(got) : fabs(want);
    if (diff <= big * 0x1p-52) {
        ++s_inexact;
        if (!(diff <= fabs(want) * 0x1p-52)) {
            ++s_symmetric_only;
        }
        return 1;
    }
    return -1;
}

/* ------------------------------------------------------------------ generators */
static double pow2(int k) {
    return ldexp(1.0, k);
}

static double decimal_digits(struct mon_rng *r, int ndig, char *lit_out) {
    /* d.ddd...e[+-]xx with exactly ndig significant digits (first and last non-zero) */
    char b[64];
    size_t o = 0;
    if (mon_chance(r, 1, 2)) {
        b[o++] = '-';
    }
    for (int i = 0; i < ndig; ++i) {
        int lo = (i == 0 || i == ndig - 1) ? 1 : 0;
        b[o++] = (char)('0' + lo + (int)mon_below(r, (uint64_t)(10 - lo)));
        if (i == 0 && ndig > 1) {
            b[o++] = '.';
        }
    }
    int e;
    switch (mon_below(r, 4)) {
        case 0:
            e = (int)mon_range(r, 0, 20) - 5;
            break;
        case 1:
            e = (int)mon_range(r, 0, 60) - 30;
            break;
        case 2:
            e = (int)mon_range(r, 0, 600) - 300;
            break;
        default:
            e = (int)mon_range(r, 0, 30);
            break;
    }
    o += (size_t)snprintf(b + o, sizeof(b) - o, "e%d", e);
    b[o] = 0;
    if (lit_out) {
        strcpy(lit_out, b);
    }
    return strtod(b, NULL);
}

static double gen_number(struct mon_rng *r) {
    static const double specials[] = {0.0, -0.0, 1.0, -1.0, 0.5, 0.1, 0.2, 0.3, 1.0 / 3.0, 2.0 / 3.0, DBL_MAX, -DBL_MAX,
                                      DBL_MIN, -DBL_MIN, 4.9406564584124654e-324, -4.9406564584124654e-324, DBL_EPSILON,
                                      1e15, 1e16, 1e17, 1e21, 1e22, 1e23, 1e-5, 1e-6, 1e-7, 123456789012345.0,
                                      1234567890123456.0, 12345678901234567.0, 9007199254740991.0, 9007199254740992.0,
                                      9007199254740993.0, 9007199254740994.0, 0.1 + 0.2, 3.141592653589793,
                                      2.718281828459045, 1e308, 1e-308, 2.2250738585072009e-308, 1.7976931348623155e308,
                                      4294967295.0, 4294967296.0, 4294967297.0, 0.30000000000000004, 100.0, 1e2, 5e-324};
    double d;
    switch (mon_below(r, 12)) {
        case 0:
            return (double)((long)mon_below(r, 2001) - 1000);
        case 1: {
            int k = (int)mon_below(r, 64);
            d = pow2(k) + (double)((int)mon_below(r, 3) - 1);
            return mon_chance(r, 1, 2) ? -d : d;
        }
        case 2: {
            /* random finite bit pattern */
            uint64_t u = mon_rand(r);
            if (((u >> 52) & 0x7FF) == 0x7FF) {
                u &= ~((uint64_t)1 << 62);
            }
            return from_bits(u);
        }
        case 3:
            return decimal_digits(r, (int)mon_range(r, 1, 15), NULL);
        case 4:
            return decimal_digits(r, (int)mon_range(r, 16, 17), NULL);
        case 5: {
            /* subnormals */
            uint64_t u = mon_rand(r) & 0x000FFFFFFFFFFFFFULL;
            if (mon_chance(r, 1, 4)) {
                u = 1 + mon_below(r, 4);
            }
            if (mon_chance(r, 1, 2)) {
                u |= (uint64_t)1 << 63;
            }
            return from_bits(u);
        }
        case 6:
            return specials[mon_below(r, sizeof(specials) / sizeof(specials[0]))];
        case 7: {
            /* where the printer switches between "%d" and "%1.15g" */
            double base = mon_chance(r, 1, 2) ? (double)INT_MAX : (double)INT_MIN;
            static const double offs[] = {0, 1, -1, 2, -2, 0.5, -0.5, 0.25, 1.5, -1.5, 1e-6, -1e-6};
            return base + offs[mon_below(r, 12)];
        }
        case 8: {
            /* top of a binade: 2^k - {1,2,3} ulp, where "%.15g" may round up across the power of two */
            int k = (int)mon_range(r, 0, 120) - 40;
            uint64_t u = bits_of(pow2(k)) - (1 + mon_below(r, 3));
            d = from_bits(u);
            return mon_chance(r, 1, 4) ? -d : d;
        }
        case 9:
            d = (double)((long)mon_below(r, 2000001) - 1000000) / 1000.0;
            return d;
        case 10: {
            /* integers beyond 2^31 and 2^53 */
            uint64_t v = mon_rand(r) >> mon_below(r, 33);
            d = (double)v;
            return mon_chance(r, 1, 2) ? -d : d;
        }
        default:
            d = (double)((long)mon_below(r, 1 << 20)) / pow2((int)mon_below(r, 30));
            return mon_chance(r, 1, 2) ? -d : d;
    }
}

/* number literal for the harness's own JSON text: valid RFC 8259, <= 40 characters, finite */
static void gen_literal(struct mon_rng *r, char *lit, double *val) {
    char b[128];
    b[0] = 0;
    switch (mon_below(r, 10)) {
        case 0:
            snprintf(b, sizeof(b), "%ld", (long)mon_below(r, 2001) - 1000);
            break;
        case 1: {
            int k = (int)mon_below(r, 64);
            uint64_t v = ((uint64_t)1 << k) + mon_below(r, 3) - 1;
            snprintf(b, sizeof(b), "%s%llu", mon_chance(r, 1, 2) ? "-" : "", (unsigned long long)v);
            break;
        }
        case 2:
            snprintf(b, sizeof(b), "%.17g", gen_number(r));
            break;
        case 3:
            snprintf(b, sizeof(b), mon_chance(r, 1, 2) ? "%.15g" : "%.16g", gen_number(r));
            break;
        case 4:
            decimal_digits(r, (int)mon_range(r, 1, 15), b);
            break;
        case 5:
            decimal_digits(r, (int)mon_range(r, 16, 17), b);
            break;
        case 6: {
            double d = (double)((long)mon_below(r, 2000000001) - 1000000000) / pow2((int)mon_below(r, 12));
            snprintf(b, sizeof(b), "%.*f", (int)mon_below(r, 13), d);
            break;
        }
        case 7: {
            static const char *forms[] = {"0",      "-0",     "0.0",    "-0.0",     "0e0",     "0E+0",      "1E2",
                                          "1e+2",   "1e-2",   "12E3",   "1.5E+007", "100e-2",  "0.000",     "1.0",
                                          "1.50",   "-1.0e0", "2e00",   "25e-1",    "1e15",    "1E+15",     "1e16",
                                          "123e18", "5e-324", "4.9e-324", "2147483647", "2147483648", "-2147483648",
                                          "-2147483649", "2147483647.0", "2147483647.5", "2.147483647e9", "9007199254740993",
                                          "0.1e1",  "10e-1",  "1e+0",   "1.7976931348623157E308", "2.2250738585072014e-308"};
            snprintf(b, sizeof(b), "%s", forms[mon_below(r, sizeof(forms) / sizeof(forms[0]))]);
            break;
        }
        case 8: {
            /* integer mantissa with explicit exponent */
            snprintf(b, sizeof(b), "%s%llu%s%s%d", mon_chance(r, 1, 2) ? "-" : "", (unsigned long long)mon_below(r, 100000),
                     mon_chance(r, 1, 2) ? "e" : "E", mon_chance(r, 1, 2) ? "+" : "-", (int)mon_below(r, 25));
            break;
        }
        default:
            snprintf(b, sizeof(b), "%.0f", gen_number(r));
            break;
    }
    /* exponent spelling variants the printer never emits */
    char *e = strchr(b, 'e');
    if (e && mon_chance(r, 1, 3)) {
        *e = 'E';
    }
    if (e && e[1] == '+' && mon_chance(r, 1, 3)) {
        memmove(e + 1, e + 2, strlen(e + 2) + 1);
    }
    double v = strtod(b, NULL);
    if (strlen(b) > 40 || !strlen(b) || isnan(v) || isinf(v) || strstr(b, "n")) {
        strcpy(b, "7");
        v = 7.0;
    }
    strcpy(lit, b);
    *val = v;
}

/* string of nelem elements: every byte value 1..255 can occur, including ill-formed UTF-8 */
static void gen_bytes(struct mon_rng *r, struct sbuf *out, size_t nelem) {
    for (size_t i = 0; i < nelem; ++i) {
        uint8_t tmp[4];
        switch (mon_below(r, 12)) {
            case 0:
            case 1:
            case 2:
                sb_c(out, (char)mon_range(r, 0x20, 0x7E));
                break;
            case 3:
                sb_c(out, (char)mon_range(r, 1, 31));
                break;
            case 4: {
                static const char sp[] = {'"', '\\', '/', 0x7f, '\b', '\f', '\n', '\r', '\t', ' ', 'u', '\''};
                sb_c(out, sp[mon_below(r, sizeof(sp))]);
                break;
            }
            case 5:
                sb_put(out, tmp, utf8_encode((uint32_t)mon_range(r, 0x80, 0x7FF), tmp));
                break;
            case 6: {
                uint32_t cp = (uint32_t)mon_range(r, 0x800, 0xFFFF);
                if (cp >= 0xD800 && cp <= 0xDFFF) {
                    cp = 0x20AC;
                }
                sb_put(out, tmp, utf8_encode(cp, tmp));
                break;
            }
            case 7:
                sb_put(out, tmp, utf8_encode((uint32_t)mon_range(r, 0x10000, 0x10FFFF), tmp));
                break;
            case 8:
                sb_c(out, (char)mon_range(r, 0x80, 0xBF)); /* lone continuation byte */
                break;
            case 9: {
                static const uint8_t bad[] = {0xC0, 0xC1, 0xF5, 0xFF, 0xFE, 0xE2, 0xF0, 0xC3, 0xED};
                sb_c(out, (char)bad[mon_below(r, sizeof(bad))]);
                break;
            }
            case 10:
                sb_c(out, (char)mon_range(r, 1, 255));
                break;
            default:
                sb_c(out, (char)('a' + mon_below(r, 26)));
                break;
        }
    }
}

static size_t gen_strlen(struct mon_rng *r) {
    switch (mon_below(r, 16)) {
        case 0:
            return 0;
        case 1:
            return (size_t)mon_range(r, 40, 300); /* longer than the printer's initial 256-byte buffer */
        case 2:
            return mon_chance(r, 1, 8) ? (size_t)mon_range(r, 300, 3000) : 1;
        default:
            return (size_t)mon_below(r, 12);
    }
}

/* keys: few distinct spellings, many case variants, so that lookups and duplicate tests collide */
static void gen_key(struct mon_rng *r, struct sbuf *out) {
    static const char *pool[] = {"a", "b", "ab", "key", "id", "x1", "name", "", "\xC3\xA9", "\xC3\x89", "K[", "K{", "@",
                                 "`", "a\n", "q\"", "s\\", "Z", "zz", "k^", "k~", "a/b", "\x01", "\x7f", "value"};
    if (mon_chance(r, 3, 5)) {
        const char *w = pool[mon_below(r, sizeof(pool) / sizeof(pool[0]))];
        size_t n = strlen(w);
        for (size_t i = 0; i < n; ++i) {
            char c = w[i];
            if (mon_chance(r, 1, 3)) {
                if (c >= 'a' && c <= 'z') {
                    c = (char)(c - 32);
                } else if (c >= 'A' && c <= 'Z') {
                    c = (char)(c + 32);
                }
            }
            sb_c(out, c);
        }
        if (mon_chance(r, 1, 6)) {
            sb_c(out, (char)('0' + mon_below(r, 10)));
        }
    } else {
        gen_bytes(r, out, 1 + (size_t)mon_below(r, 6));
    }
}

/* a spelling of key that differs only in ASCII letter case (returns false if the key has no letter) */
static bool case_variant(struct mon_rng *r, const uint8_t *key, size_t klen, struct sbuf *out) {
    bool changed = false;
    for (size_t i = 0; i < klen; ++i) {
        uint8_t c = key[i];
        bool letter = (c >= 'a' && c <= 'z') || (c >= 'A' && c <= 'Z');
        if (letter && (!changed || mon_chance(r, 1, 2))) {
            c ^= 0x20;
            changed = true;
        }
        sb_c(out, (char)c);
    }
    if (klen == 0) {
        sb_put(out, "", 0);
    }
    return changed;
}

/* ------------------------------------------------------------------ the harness's own JSON writer */
struct wstats {
    unsigned u_esc, surrogate, solidus, expo, ws;
};

static void wr_hex4(struct sbuf *o, uint32_t v, struct mon_rng *r) {
    char b[8];
    snprintf(b, sizeof(b), (r && mon_chance(r, 1, 2)) ? "\\u%04X" : "\\u%04x", v);
    sb_s(o, b);
}

static const char *short_escape(uint8_t c) {
    switch (c) {
        case '"':
            return "\\\"";
        case '\\':
            return "\\\\";
        case '/':
            return "\\/";
        case '\b':
            return "\\b";
        case '\f':
            return "\\f";
        case '\n':
            return "\\n";
        case '\r':
            return "\\r";
        case '\t':
            return "\\t";
        default:
            return NULL;
    }
}

/* r == NULL: canonical form (escape only what must be escaped); else a random valid representation per character */
static void wr_string(struct sbuf *o, const uint8_t *s, size_t n, struct mon_rng *r, struct wstats *st) {
    sb_c(o, '"');
    size_t i = 0;
    while (i < n) {
        uint32_t cp = 0;
        size_t l = utf8_decode(s + i, n - i, &cp);
        if (l == 0) {
            sb_c(o, (char)s[i++]); /* ill-formed byte: only the raw form exists */
            continue;
        }
        if (cp < 0x80) {
            uint8_t c = (uint8_t)cp;
            bool must = c < 0x20 || c == '"' || c == '\\';
            const char *sh = short_escape(c);
            int choice; /* 0 raw, 1 short, 2 \u00XX */
            if (!r) {
                choice = !must ? 0 : (c < 0x20 ? 2 : 1);
            } else {
                unsigned pick = (unsigned)mon_below(r, 8);
                if (!must && pick < 5) {
                    choice = 0;
                } else if (sh && pick < 7) {
                    choice = 1;
                } else if (must || pick == 7) {
                    choice = 2;
                } else {
                    choice = 0;
                }
            }
            if (choice == 0) {
                sb_c(o, (char)c);
            } else if (choice == 1) {
                sb_s(o, sh);
                if (c == '/' && st) {
                    ++st->solidus;
                }
            } else {
                wr_hex4(o, c, r);
                if (st) {
                    ++st->u_esc;
                }
            }
        } else if (!r || mon_chance(r, 3, 5)) {
            sb_put(o, s + i, l);
        } else if (cp < 0x10000) {
            wr_hex4(o, cp, r);
            if (st) {
                ++st->u_esc;
            }
        } else {
            uint32_t v = cp - 0x10000;
            wr_hex4(o, 0xD800 + (v >> 10), r);
            wr_hex4(o, 0xDC00 + (v & 0x3FF), r);
            if (st) {
                ++st->surrogate;
            }
        }
        i += l;
    }
    sb_c(o, '"');
}

static void wr_ws(struct sbuf *o, struct mon_rng *r, struct wstats *st) {
    if (!r || !mon_chance(r, 1, 3)) {
        return;
    }
    size_t k = 1 + (size_t)mon_below(r, 3);
    for (size_t i = 0; i < k; ++i) {
        sb_c(o, " \t\n\r "[mon_below(r, 5)]);
    }
    if (st) {
        ++st->ws;
    }
}

static void wr_value(struct sbuf *o, const struct mnode *m, struct mon_rng *r, struct wstats *st) {
    char b[64];
    switch (m->kind) {
        case K_NULL:
            sb_s(o, "null");
            break;
        case K_FALSE:
            sb_s(o, "false");
            break;
        case K_TRUE:
            sb_s(o, "true");
            break;
        case K_NUM:
            if (r && m->lit) {
                sb_s(o, m->lit);
                if (st && (strchr(m->lit, 'e') || strchr(m->lit, 'E'))) {
                    ++st->expo;
                }
            } else {
                snprintf(b, sizeof(b), "%.17g", m->num);
                sb_s(o, b);
            }
            break;
        case K_STR:
            wr_string(o, m->str, m->slen, r, st);
            break;
        case K_ARR:
            sb_c(o, '[');
            wr_ws(o, r, st);
            for (size_t i = 0; i < m->n; ++i) {
                if (i) {
                    sb_c(o, ',');
                    wr_ws(o, r, st);
                }
                wr_value(o, m->kid[i], r, st);
                wr_ws(o, r, st);
            }
            sb_c(o, ']');
            break;
        default:
            sb_c(o, '{');
            wr_ws(o, r, st);
            for (size_t i = 0; i < m->n; ++i) {
                if (i) {
                    sb_c(o, ',');
                    wr_ws(o, r, st);
                }
                wr_string(o, m->key[i], m->klen[i], r, st);
                wr_ws(o, r, st);
                sb_c(o, ':');
                wr_ws(o, r, st);
                wr_value(o, m->kid[i], r, st);
                wr_ws(o, r, st);
            }
            sb_c(o, '}');
            break;
    }
}

/* ------------------------------------------------------------------ independent strict RFC 8259 reader */
struct rd {
    const uint8_t *p;
    size_t n, i;
    const char *err;
    unsigned lit_int, lit_le15, lit_17, lit_expo, short_esc, u_esc, high_raw;
};

static void rd_ws(struct rd *p) {
    while (p->i < p->n && (p->p[p->i] == ' ' || p->p[p->i] == '\t' || p->p[p->i] == '\n' || p->p[p->i] == '\r')) {
        ++p->i;
    }
}

static int hexval(uint8_t c) {
    if (c >= '0' && c <= '9') {
        return c - '0';
    }
    if (c >= 'a' && c <= 'f') {
        return c - 'a' + 10;
    }
    if (c >= 'A' && c <= 'F') {
        return c - 'A' + 10;
    }
    return -1;
}

static bool rd_hex4(struct rd *p, uint32_t *out) {
    if (p->i + 4 > p->n) {
        return false;
    }
    uint32_t v = 0;
    for (int k = 0; k < 4; ++k) {
        int h = hexval(p->p[p->i + (size_t)k]);
        if (h < 0) {
            return false;
        }
        v = v * 16 + (uint32_t)h;
    }
    p->i += 4;
    *out = v;
    return true;
}

/* reads a string literal into out (decoded bytes); false + p->err on a grammar violation */
static bool rd_string(struct rd *p, struct sbuf *out) {
    if (p->i >= p->n || p->p[p->i] != '"') {
        p->err = "expected '\"'";
        return false;
    }
    ++p->i;
    sb_put(out, "", 0);
    for (;;) {
        if (p->i >= p->n) {
            p->err = "unterminated string";
            return false;
        }
        uint8_t c = p->p[p->i++];
        if (c == '"') {
            return true;
        }
        if (c < 0x20) {
            p->err = "raw control character inside a string";
            return false;
        }
        if (c != '\\') {
            if (c >= 0x80) {
                ++p->high_raw;
            }
            sb_c(out, (char)c);
            continue;
        }
        if (p->i >= p->n) {
            p->err = "dangling backslash";
            return false;
        }
        c = p->p[p->i++];
        switch (c) {
            case '"':
            case '\\':
            case '/':
                sb_c(out, (char)c);
                ++p->short_esc;
                break;
            case 'b':
                sb_c(out, '\b');
                ++p->short_esc;
                break;
            case 'f':
                sb_c(out, '\f');
                ++p->short_esc;
                break;
            case 'n':
                sb_c(out, '\n');
                ++p->short_esc;
                break;
            case 'r':
                sb_c(out, '\r');
                ++p->short_esc;
                break;
            case 't':
                sb_c(out, '\t');
                ++p->short_esc;
                break;
            case 'u': {
                uint32_t v, lo;
                if (!rd_hex4(p, &v)) {
                    p->err = "bad \\u escape";
                    return false;
                }
                ++p->u_esc;
                if (v >= 0xDC00 && v <= 0xDFFF) {
                    p->err = "lone low surrogate";
                    return false;
                }
                if (v >= 0xD800 && v <= 0xDBFF) {
                    if (p->i + 2 > p->n || p->p[p->i] != '\\' || p->p[p->i + 1] != 'u') {
                        p->err = "lone high surrogate";
                        return false;
                    }
                    p->i += 2;
                    if (!rd_hex4(p, &lo) || lo < 0xDC00 || lo > 0xDFFF) {
                        p->err = "bad low surrogate";
                        return false;
                    }
                    v = 0x10000 + ((v - 0xD800) << 10) + (lo - 0xDC00);
                }
                if (v == 0) {
                    p->err = "\\u0000 (embedded NUL cannot be represented)";
                    return false;
                }
                uint8_t tmp[4];
                sb_put(out, tmp, utf8_encode(v, tmp));
                break;
            }
            default:
                p->err = "unknown escape";
                return false;
        }
    }
}

static bool rd_number(struct rd *p, double *out) {
    size_t s = p->i;
    size_t digits_start;
    if (p->i < p->n && p->p[p->i] == '-') {
        ++p->i;
    }
    digits_start = p->i;
    if (p->i >= p->n || p->p[p->i] < '0' || p->p[p->i] > '9') {
        p->err = "number: digit expected";
        return false;
    }
    if (p->p[p->i] == '0') {
        ++p->i;
    } else {
        while (p->i < p->n && p->p[p->i] >= '0' && p->p[p->i] <= '9') {
            ++p->i;
        }
    }
    bool frac = false, expo = false;
    if (p->i < p->n && p->p[p->i] == '.') {
        frac = true;
        ++p->i;
        if (p->i >= p->n || p->p[p->i] < '0' || p->p[p->i] > '9') {
            p->err = "number: digit expected after '.'";
            return false;
        }
        while (p->i < p->n && p->p[p->i] >= '0' && p->p[p->i] <= '9') {
            ++p->i;
        }
    }
    size_t mant_end = p->i;
    if (p->i < p->n && (p->p[p->i] == 'e' || p->p[p->i] == 'E')) {
        expo = true;
        ++p->i;
        if (p->i < p->n && (p->p[p->i] == '+' || p->p[p->i] == '-')) {
            ++p->i;
        }
        if (p->i >= p->n || p->p[p->i] < '0' || p->p[p->i] > '9') {
            p->err = "number: digit expected in exponent";
            return false;
        }
        while (p->i < p->n && p->p[p->i] >= '0' && p->p[p->i] <= '9') {
            ++p->i;
        }
    }
    size_t len = p->i - s;
    if (len > 100) {
        p->err = "number literal longer than 100 characters";
        return false;
    }
    char b[104];
    memcpy(b, p->p + s, len);
    b[len] = 0;
    *out = strtod(b, NULL);
    /* significant digits of the literal (statistics: which of the printer's formats produced it) */
    unsigned sig = 0, trailing = 0;
    bool lead = true;
    for (size_t k = digits_start; k < mant_end; ++k) {
        uint8_t c = p->p[k];
        if (c == '.') {
            continue;
        }
        if (lead && c == '0') {
            continue;
        }
        lead = false;
        ++sig;
        trailing = c == '0' ? trailing + 1 : 0;
    }
    sig -= trailing;
    if (expo) {
        ++p->lit_expo;
    }
    if (!frac && !expo) {
        ++p->lit_int;
    } else if (sig <= 15) {
        ++p->lit_le15;
    }
    if (sig >= 16) {
        ++p->lit_17;
    }
    return true;
}

static struct mnode *rd_value(struct rd *p, int depth) {
    if (depth > 1100) {
        p->err = "nesting deeper than 1100";
        return NULL;
    }
    if (p->i >= p->n) {
        p->err = "value expected, end of text";
        return NULL;
    }
    uint8_t c = p->p[p->i];
    if (c == 'n' && p->n - p->i >= 4 && !memcmp(p->p + p->i, "null", 4)) {
        p->i += 4;
        return mn_new(K_NULL);
    }
    if (c == 't' && p->n - p->i >= 4 && !memcmp(p->p + p->i, "true", 4)) {
        p->i += 4;
        return mn_new(K_TRUE);
    }
    if (c == 'f' && p->n - p->i >= 5 && !memcmp(p->p + p->i, "false", 5)) {
        p->i += 5;
        return mn_new(K_FALSE);
    }
    if (c == '"') {
        struct sbuf s = {0};
        if (!rd_string(p, &s)) {
            sb_free(&s);
            return NULL;
        }
        struct mnode *m = mn_str(s.p, s.n);
        sb_free(&s);
        return m;
    }
    if (c == '-' || (c >= '0' && c <= '9')) {
        double d;
        if (!rd_number(p, &d)) {
            return NULL;
        }
        return mn_num(d);
    }
    if (c == '[' || c == '{') {
        bool obj = c == '{';
        uint8_t close = obj ? '}' : ']';
        struct mnode *m = mn_new(obj ? K_OBJ : K_ARR);
        ++p->i;
        rd_ws(p);
        if (p->i < p->n && p->p[p->i] == close) {
            ++p->i;
            return m;
        }
        for (;;) {
            struct sbuf k = {0};
            if (obj) {
                rd_ws(p);
                if (!rd_string(p, &k)) {
                    sb_free(&k);
                    mn_free(m);
                    return NULL;
                }
                rd_ws(p);
                if (p->i >= p->n || p->p[p->i] != ':') {
                    p->err = "':' expected";
                    sb_free(&k);
                    mn_free(m);
                    return NULL;
                }
                ++p->i;
            }
            rd_ws(p);
            struct mnode *kid = rd_value(p, depth + 1);
            if (!kid) {
                sb_free(&k);
                mn_free(m);
                return NULL;
            }
            mn_add(m, k.p ? k.p : "", k.n, kid);
            sb_free(&k);
            rd_ws(p);
            if (p->i < p->n && p->p[p->i] == ',') {
                ++p->i;
                continue;
            }
            if (p->i < p->n && p->p[p->i] == close) {
                ++p->i;
                return m;
            }
            p->err = obj ? "',' or '}' expected" : "',' or ']' expected";
            mn_free(m);
            return NULL;
        }
    }
    p->err = "unexpected character where a value should start";
    return NULL;
}

/* whole text must be exactly one value surrounded by optional whitespace */
static struct mnode *strict_read(const void *text, size_t n, struct rd *st) {
    memset(st, 0, sizeof(*st));
    st->p = text;
    st->n = n;
    rd_ws(st);
    struct mnode *m = rd_value(st, 0);
    if (!m) {
        return NULL;
    }
    rd_ws(st);
    if (st->i != st->n) {
        st->err = "trailing characters after the value";
        mn_free(m);
        return NULL;
    }
    return m;
}

/* ------------------------------------------------------------------ model comparison */
enum { CMP_EXACT, CMP_TOL };

static void path_push(char *path, size_t cap, const char *fmt, ...) {
    size_t l = strlen(path);
    if (l + 24 >= cap) {
        return;
    }
    va_list ap;
    va_start(ap, fmt);
    vsnprintf(path + l, cap - l, fmt, ap);
    va_end(ap);
}

static void tree_violation(const char *stage, const char *what, const char *path, const char *fmt, ...) {
    char key[96], detail[1500];
    snprintf(key, sizeof(key), "C11:tree:%s:%s", stage, what);
    va_list ap;
    va_start(ap, fmt);
    vsnprintf(detail, sizeof(detail), fmt, ap);
    va_end(ap);
    mon_violation(key, "at $%s: %s", path, detail);
}

/* want = generating tree, got = tree read back. Reports the first difference; returns equality. */
static bool model_cmp_at(const struct mnode *want, const struct mnode *got, int mode, const char *stage, char *path, size_t cap) {
    if (want->kind != got->kind) {
        tree_violation(stage, "kind", path, "expected %s, found %s", s_kind_names[want->kind], s_kind_names[got->kind]);
        return false;
    }
    switch (want->kind) {
        case K_NUM: {
            int rc = mode == CMP_EXACT ? (got->num == want->num ? 0 : -1) : num_check(want->num, got->num);
            if (rc == 1) {
                mon_flag(F_NUM_INEXACT_WITHIN_TOL);
            }
            if (rc < 0 && isinf(got->num) && !isinf(want->num)) {
                /* own failure class: a finite value was printed as a literal that reads as infinity */
                mon_violation("C11:number:finite-value-reads-back-as-infinity",
                              "stage %s at $%s: expected %.17g (bits %016llx), found %s infinity: the printed literal overflows when read",
                              stage, path, want->num, (unsigned long long)bits_of(want->num), got->num < 0 ? "negative" : "positive");
                return false;
            }
            if (rc < 0) {
                tree_violation(stage, "number", path,
                               "expected %.17g (bits %016llx, %s), found %.17g (bits %016llx); |diff|/|expected| = %.3g",
                               want->num, (unsigned long long)bits_of(want->num),
                               mode == CMP_EXACT ? "exact"
                                                 : (exact15(want->num) ? "<=15 significant digits: must be unchanged"
                                                                       : "tolerance 2^-52 relative"),
                               got->num, (unsigned long long)bits_of(got->num),
                               want->num != 0 ? fabs((got->num - want->num) / want->num) : fabs(got->num));
                return false;
            }
            return true;
        }
        case K_STR:
            if (!key_eq(want->str, want->slen, got->str, got->slen)) {
                tree_violation(stage, "string", path, "expected %zu bytes %s, found %zu bytes %s", want->slen,
                               mon_hex(want->str, want->slen, 80), got->slen, mon_hex(got->str, got->slen, 80));
                return false;
            }
            return true;
        case K_ARR:
        case K_OBJ:
            if (want->n != got->n) {
                tree_violation(stage, "length", path, "%s has %zu members, expected %zu", s_kind_names[want->kind], got->n,
                               want->n);
                return false;
            }
            for (size_t i = 0; i < want->n; ++i) {
                if (want->kind == K_OBJ && !key_eq(want->key[i], want->klen[i], got->key[i], got->klen[i])) {
                    tree_violation(stage, "key", path, "member %zu: expected key %s, found key %s", i,
                                   mon_hex(want->key[i], want->klen[i], 60), mon_hex(got->key[i], got->klen[i], 60));
                    return false;
                }
                size_t l = strlen(path);
                if (want->kind == K_OBJ) {
                    path_push(path, cap, ".#%zu", i);
                } else {
                    path_push(path, cap, "[%zu]", i);
                }
                bool ok = model_cmp_at(want->kid[i], got->kid[i], mode, stage, path, cap);
                path[l] = 0;
                if (!ok) {
                    return false;
                }
            }
            return true;
        default:
            return true;
    }
}

static bool model_cmp(const struct mnode *want, const struct mnode *got, int mode, const char *stage) {
    char path[200];
    path[0] = 0;
    return model_cmp_at(want, got, mode, stage, path, sizeof(path));
}

/* ------------------------------------------------------------------ reading a library tree through the public API */
struct collect {
    size_t n, cap;
    const struct aws_json_value **v;
    uint8_t **key;
    size_t *klen;
    bool want_keys;
    bool idx_bad;
    size_t stop_after; /* SIZE_MAX: never */
    bool fail_at_stop;
    size_t calls;
};

static void collect_free(struct collect *c) {
    if (c->key) {
        for (size_t i = 0; i < c->n; ++i) {
            free(c->key[i]);
        }
    }
    free(c->key);
    free(c->klen);
    free(c->v);
    memset(c, 0, sizeof(*c));
}

static void collect_push(struct collect *c, const struct aws_json_value *v, const struct aws_byte_cursor *key) {
    if (c->n == c->cap) {
        c->cap = c->cap ? c->cap * 2 : 8;
        c->v = realloc(c->v, c->cap * sizeof(*c->v));
        if (c->want_keys) {
            c->key = realloc(c->key, c->cap * sizeof(*c->key));
            c->klen = realloc(c->klen, c->cap * sizeof(*c->klen));
        }
    }
    c->v[c->n] = v;
    if (c->want_keys) {
        c->key[c->n] = dup_bytes(key->ptr, key->len);
        c->klen[c->n] = key->len;
    }
    ++c->n;
}

static int s_on_member(const struct aws_byte_cursor *key, const struct aws_json_value *value, bool *cont, void *ud) {
    struct collect *c = ud;
    ++c->calls;
    if (!*cont) {
        c->idx_bad = true; /* documented default of out_should_continue is true */
    }
    collect_push(c, value, key);
    if (c->n - 1 == c->stop_after) {
        if (c->fail_at_stop) {
            return AWS_OP_ERR;
        }
        *cont = false;
    }
    return AWS_OP_SUCCESS;
}

static int s_on_value(size_t idx, const struct aws_json_value *value, bool *cont, void *ud) {
    struct collect *c = ud;
    ++c->calls;
    if (idx != c->n || !*cont) {
        c->idx_bad = true;
    }
    collect_push(c, value, NULL);
    if (c->n - 1 == c->stop_after) {
        if (c->fail_at_stop) {
            return AWS_OP_ERR;
        }
        *cont = false;
    }
    return AWS_OP_SUCCESS;
}

static bool collect_members(const struct aws_json_value *v, bool object, struct collect *c) {
    memset(c, 0, sizeof(*c));
    c->want_keys = object;
    c->stop_after = SIZE_MAX;
    int rc = object ? aws_json_const_iterate_object(v, s_on_member, c) : aws_json_const_iterate_array(v, s_on_value, c);
    if (rc != AWS_OP_SUCCESS) {
        mon_violation("C11:iterate:failed", "const_iterate_%s over a value of that type returned %d", object ? "object" : "array", rc);
        return false;
    }
    if (c->idx_bad) {
        mon_violation("C11:iterate:callback-arguments", "const_iterate_%s: index argument not 0,1,2,... or out_should_continue not preset to true",
                      object ? "object" : "array");
    }
    return true;
}

/* reads v into a fresh model tree; every structural inconsistency between the access paths is a violation */
static struct mnode *extract(const struct aws_json_value *v) {
    if (!v) {
        mon_violation("C11:extract:null-member", "a container handed out a NULL member");
        return mn_new(K_NULL);
    }
    bool is_s = aws_json_value_is_string(v), is_n = aws_json_value_is_number(v), is_a = aws_json_value_is_array(v),
         is_b = aws_json_value_is_boolean(v), is_z = aws_json_value_is_null(v), is_o = aws_json_value_is_object(v);
    int ntrue = is_s + is_n + is_a + is_b + is_z + is_o;
    if (ntrue != 1) {
        mon_violation("C11:type-predicates", "value answers string=%d number=%d array=%d boolean=%d null=%d object=%d", is_s, is_n,
                      is_a, is_b, is_z, is_o);
        return mn_new(K_NULL);
    }
    struct mnode *m;
    struct aws_byte_cursor cur = {0};
    double d = 0;
    bool b = false;
    /* typed getters succeed exactly for their own type */
    int rs = aws_json_value_get_string(v, &cur), rn = aws_json_value_get_number(v, &d), rb = aws_json_value_get_boolean(v, &b);
    if ((rs == AWS_OP_SUCCESS) != is_s || (rn == AWS_OP_SUCCESS) != is_n || (rb == AWS_OP_SUCCESS) != is_b) {
        mon_violation("C11:getter-wrong-type", "getters string=%d number=%d boolean=%d disagree with predicates string=%d number=%d boolean=%d",
                      rs, rn, rb, is_s, is_n, is_b);
    }
    if (is_z) {
        m = mn_new(K_NULL);
    } else if (is_b) {
        m = mn_new(b ? K_TRUE : K_FALSE);
    } else if (is_n) {
        m = mn_num(d);
    } else if (is_s) {
        if (rs != AWS_OP_SUCCESS || (cur.len && !cur.ptr)) {
            m = mn_str("", 0);
        } else {
            m = mn_str(cur.ptr, cur.len);
            if (memchr(cur.ptr, 0, cur.len)) {
                mon_violation("C11:string:embedded-nul", "get_string returned %zu bytes containing NUL", cur.len);
            }
        }
    } else {
        m = mn_new(is_o ? K_OBJ : K_ARR);
        struct collect c;
        if (collect_members(v, is_o, &c)) {
            if (is_a) {
                size_t sz = aws_json_get_array_size(v);
                if (sz != c.n) {
                    mon_violation("C11:array:size", "get_array_size %zu but iteration visited %zu elements", sz, c.n);
                }
                /* index access agrees with iteration order (all indices for small arrays, a spread for large ones) */
                size_t step = c.n > 48 ? c.n / 24 : 1;
                for (size_t i = 0; i < c.n; i += step) {
                    const struct aws_json_value *e = aws_json_get_array_element(v, i);
                    if (e != c.v[i]) {
                        mon_violation("C11:array:get-index", "get_array_element(%zu) of %zu is not the %zu-th value of the iteration%s", i,
                                      c.n, i, e ? "" : " (NULL)");
                        break;
                    }
                }
                if (c.n) {
                    const struct aws_json_value *e = aws_json_get_array_element(v, c.n - 1);
                    if (e != c.v[c.n - 1]) {
                        mon_violation("C11:array:get-index", "get_array_element(last=%zu) is not the last value of the iteration", c.n - 1);
                    }
                }
            } else {
                size_t lim = c.n > 40 ? 40 : c.n;
                for (size_t i = 0; i < lim; ++i) {
                    size_t first = i;
                    for (size_t j = 0; j < i; ++j) {
                        if (key_eq_fold(c.key[j], c.klen[j], c.key[i], c.klen[i])) {
                            first = j;
                            break;
                        }
                    }
                    const struct aws_json_value *e;
                    bool has;
                    if (i & 1) {
                        e = aws_json_value_get_from_object(v, aws_byte_cursor_from_array(c.key[i], c.klen[i]));
                        has = aws_json_value_has_key_c_str(v, (const char *)c.key[i]);
                    } else {
                        e = aws_json_value_get_from_object_c_str(v, (const char *)c.key[i]);
                        has = aws_json_value_has_key(v, aws_byte_cursor_from_array(c.key[i], c.klen[i]));
                    }
                    if (e != c.v[first] || !has) {
                        mon_violation(first == i ? "C11:object:get" : "C11:object:get:duplicate-keys",
                                      "member %zu of %zu with key %s: get_from_object %s, has_key=%d (first member with that key: %zu)", i,
                                      c.n, mon_hex(c.key[i], c.klen[i], 40),
                                      e == c.v[first] ? "ok" : (e ? "returned another member" : "returned NULL"), has, first);
                        break;
                    }
                }
            }
            for (size_t i = 0; i < c.n; ++i) {
                mn_add(m, is_o ? c.key[i] : NULL, is_o ? c.klen[i] : 0, extract(c.v[i]));
            }
        }
        collect_free(&c);
    }
    m->lib = (struct aws_json_value *)(uintptr_t)v;
    return m;
}

/* cheap check after every mutating call: order, keys and identity of the members of one container */
static bool verify_container(struct aws_json_value *lib, const struct mnode *m, const char *after) {
    struct collect c;
    bool obj = m->kind == K_OBJ;
    bool ok = true;
    if (!collect_members(lib, obj, &c)) {
        collect_free(&c);
        return false;
    }
    if (!obj) {
        size_t sz = aws_json_get_array_size(lib);
        if (sz != m->n) {
            mon_violation("C11:array:size", "after %s: get_array_size %zu, reference %zu", after, sz, m->n);
            ok = false;
        }
    }
    if (c.n != m->n) {
        mon_violation(obj ? "C11:object:order" : "C11:array:order", "after %s: iteration visits %zu members, reference has %zu", after, c.n,
                      m->n);
        ok = false;
    } else {
        for (size_t i = 0; i < c.n; ++i) {
            if (c.v[i] != m->kid[i]->lib) {
                mon_violation(obj ? "C11:object:order" : "C11:array:order",
                              "after %s: member %zu of %zu is not the value inserted %zu-th among the surviving ones", after, i, c.n, i);
                ok = false;
                break;
            }
            if (obj && !key_eq(c.key[i], c.klen[i], m->key[i], m->klen[i])) {
                mon_violation("C11:object:key-bytes", "after %s: member %zu has key %s, was added as %s", after, i,
                              mon_hex(c.key[i], c.klen[i], 60), mon_hex(m->key[i], m->klen[i], 60));
                ok = false;
                break;
            }
        }
    }
    collect_free(&c);
    return ok;
}

/* early stop / error return of the iteration callbacks (documented in the header) */
static void check_iterate_control(struct aws_json_value *lib, const struct mnode *m, struct mon_rng *r) {
    if (m->n == 0) {
        return;
    }
    bool obj = m->kind == K_OBJ;
    struct collect c;
    memset(&c, 0, sizeof(c));
    c.want_keys = obj;
    c.stop_after = (size_t)mon_below(r, m->n);
    c.fail_at_stop = mon_chance(r, 1, 2);
    int rc = obj ? aws_json_const_iterate_object(lib, s_on_member, &c) : aws_json_const_iterate_array(lib, s_on_value, &c);
    if (c.calls != c.stop_after + 1) {
        mon_violation("C11:iterate:stop", "callback asked to stop (%s) at member %zu of %zu but was called %zu times",
                      c.fail_at_stop ? "error" : "should_continue=false", c.stop_after, m->n, c.calls);
    }
    if ((rc == AWS_OP_SUCCESS) == c.fail_at_stop) {
        mon_violation("C11:iterate:stop", "iteration returned %d after the callback %s", rc,
                      c.fail_at_stop ? "returned AWS_OP_ERR" : "stopped without error");
    }
    mon_flag(F_ITERATE_EARLY_STOP);
    collect_free(&c);
}

/* ------------------------------------------------------------------ building through the API */
struct budget {
    int nodes;    /* nodes still allowed */
    int maxdepth; /* container nesting allowed below the current node */
};

static struct aws_json_value *build_api(struct mon_rng *r, struct mnode **out, struct budget *bg, int depth);

/* a cursor that is NOT followed by NUL: the library must honour the length */
static struct aws_byte_cursor unterminated(const uint8_t *p, size_t n, uint8_t **storage) {
    uint8_t *s = malloc(n + 4);
    if (n) {
        memcpy(s, p, n);
    }
    memcpy(s + n, "Xy\"]", 4);
    *storage = s;
    return aws_byte_cursor_from_array(s, n);
}

static struct aws_json_value *build_scalar(struct mon_rng *r, struct mnode **out) {
    struct aws_json_value *v;
    struct mnode *m;
    switch (mon_below(r, 8)) {
        case 0:
            m = mn_new(K_NULL);
            v = aws_json_value_new_null(s_alloc);
            break;
        case 1:
            m = mn_new(mon_chance(r, 1, 2) ? K_TRUE : K_FALSE);
            v = aws_json_value_new_boolean(s_alloc, m->kind == K_TRUE);
            break;
        case 2:
        case 3:
        case 4:
            m = mn_num(gen_number(r));
            v = aws_json_value_new_number(s_alloc, m->num);
            break;
        default: {
            struct sbuf s = {0};
            sb_put(&s, "", 0);
            gen_bytes(r, &s, gen_strlen(r));
            m = mn_str(s.p, s.n);
            if (mon_chance(r, 1, 2)) {
                uint8_t *st;
                struct aws_byte_cursor c = unterminated(m->str, m->slen, &st);
                v = aws_json_value_new_string(s_alloc, c);
                free(st);
            } else {
                v = aws_json_value_new_string_from_c_str(s_alloc, (const char *)m->str);
            }
            sb_free(&s);
            break;
        }
    }
    if (!v) {
        mon_violation("C11:create-failed", "aws_json_value_new_%s returned NULL", s_kind_names[m->kind]);
    }
    m->lib = v;
    *out = m;
    return v;
}

static int add_member(struct mon_rng *r, struct aws_json_value *obj, const uint8_t *key, size_t klen, struct aws_json_value *val) {
    if (mon_chance(r, 1, 2)) {
        uint8_t *st;
        struct aws_byte_cursor c = unterminated(key, klen, &st);
        int rc = aws_json_value_add_to_object(obj, c, val);
        free(st);
        return rc;
    }
    return aws_json_value_add_to_object_c_str(obj, (const char *)key, val);
}

static struct aws_json_value *get_member(struct mon_rng *r, struct aws_json_value *obj, const uint8_t *key, size_t klen, bool *has) {
    struct aws_json_value *g;
    if (mon_chance(r, 1, 2)) {
        uint8_t *st;
        struct aws_byte_cursor c = unterminated(key, klen, &st);
        g = aws_json_value_get_from_object(obj, c);
        *has = aws_json_value_has_key(obj, c);
        free(st);
    } else {
        g = aws_json_value_get_from_object_c_str(obj, (const char *)key);
        *has = aws_json_value_has_key_c_str(obj, (const char *)key);
    }
    return g;
}

static int remove_member(struct mon_rng *r, struct aws_json_value *obj, const uint8_t *key, size_t klen) {
    if (mon_chance(r, 1, 2)) {
        uint8_t *st;
        struct aws_byte_cursor c = unterminated(key, klen, &st);
        int rc = aws_json_value_remove_from_object(obj, c);
        free(st);
        return rc;
    }
    return aws_json_value_remove_from_object_c_str(obj, (const char *)key);
}

/* copy a member into a fresh object under a key of the caller's choice (same, case variant, unrelated): the new member must
 * carry exactly the key it was added with and a value equal to the source, whatever key the duplicate had before */
static bool serialise(struct aws_json_value *v, bool formatted, struct sbuf *out, struct mon_rng *r);

static void check_rekeyed_copy(struct mon_rng *r, struct aws_json_value *lib, const struct mnode *m) {
    if (m->kind != K_OBJ || m->n == 0) {
        return;
    }
    size_t pick = (size_t)mon_below(r, m->n);
    long at = mn_find(m, m->key[pick], m->klen[pick]); /* lookups return the first match */
    if (at < 0) {
        return;
    }
    uint8_t *st;
    struct aws_byte_cursor kc = unterminated(m->key[pick], m->klen[pick], &st);
    struct aws_json_value *src = aws_json_value_get_from_object(lib, kc);
    free(st);
    if (!src) {
        return; /* judged by the ordinary get check */
    }
    struct aws_json_value *dup = aws_json_value_duplicate(src);
    if (!dup) {
        mon_violation("C11:duplicate-failed", "aws_json_value_duplicate of a member returned NULL");
        return;
    }
    struct sbuf nk = {0};
    sb_put(&nk, "", 0);
    unsigned how = (unsigned)mon_below(r, 4);
    if (how == 0) {
        sb_put(&nk, m->key[pick], m->klen[pick]);
    } else if (how == 3) {
        gen_key(r, &nk);
    } else if (!case_variant(r, m->key[pick], m->klen[pick], &nk)) {
        how = 0; /* no letters: same key */
    }
    struct aws_json_value *T = aws_json_value_new_object(s_alloc);
    if (add_member(r, T, (const uint8_t *)nk.p, nk.n, dup) != AWS_OP_SUCCESS) {
        mon_violation("C11:object:add-refused", "adding a duplicated member to an empty object under key %s failed", mon_hex(nk.p, nk.n, 40));
        aws_json_value_destroy(dup);
    } else {
        struct mnode *E = extract(T);
        if (E->kind != K_OBJ || E->n != 1 || E->klen[0] != nk.n || memcmp(E->key[0], nk.p, nk.n)) {
            mon_violation("C11:rekeyed-copy:key", "member %s duplicated and added to an empty object as %s (%s) is stored under %s", mon_hex(m->key[pick], m->klen[pick], 40),
                          mon_hex(nk.p, nk.n, 40), how == 0 ? "same key" : how == 3 ? "unrelated key" : "case variant", E->n == 1 ? mon_hex(E->key[0], E->klen[0], 40) : "(no single member)");
        } else {
            model_cmp(m->kid[at], E->kid[0], CMP_EXACT, "rekeyed-copy");
            struct sbuf out = {0};
            if (serialise(T, false, &out, r)) {
                struct rd st2;
                struct mnode *own = strict_read(out.p, out.n, &st2);
                if (!own || own->kind != K_OBJ || own->n != 1 || own->klen[0] != nk.n || memcmp(own->key[0], nk.p, nk.n)) {
                    mon_violation("C11:rekeyed-copy:serialised-key", "member added as %s is serialised as %.80s", mon_hex(nk.p, nk.n, 40), out.p ? out.p : "");
                }
                mn_free(own);
            }
            sb_free(&out);
        }
        mn_free(E);
        mon_flag(how == 1 || how == 2 ? F_REKEY_VARIANT : F_REKEY_OTHER);
    }
    aws_json_value_destroy(T);
    sb_free(&nk);
}

/* one operation on an object against the reference (ordered association list, case-insensitive keys) */
static void object_op(struct mon_rng *r, struct aws_json_value *lib, struct mnode *m, struct budget *bg, int depth, bool prefer_add) {
    if (m->n && mon_chance(r, 1, 10)) {
        check_rekeyed_copy(r, lib, m);
    }
    unsigned pick = (unsigned)mon_below(r, 100);
    if (prefer_add && pick >= 55) {
        pick = (unsigned)mon_below(r, 55);
    }
    struct sbuf k = {0};
    sb_put(&k, "", 0);
    char what[64];
    if (pick < 55 || m->n == 0) {
        /* add: fresh key, exact duplicate or case variant of an existing key */
        bool variant = false;
        if (m->n && mon_chance(r, 1, 5)) {
            size_t i = (size_t)mon_below(r, m->n);
            if (mon_chance(r, 1, 2)) {
                sb_put(&k, m->key[i], m->klen[i]);
            } else {
                variant = case_variant(r, m->key[i], m->klen[i], &k);
            }
        } else {
            gen_key(r, &k);
        }
        long at = mn_find(m, (uint8_t *)k.p, k.n);
        bool exact = at >= 0 && key_eq(m->key[at], m->klen[at], (uint8_t *)k.p, k.n);
        mon_fp(1 + (at >= 0) + exact);
        struct mnode *cm = NULL;
        struct aws_json_value *cv = build_api(r, &cm, bg, depth + 1);
        int rc = add_member(r, lib, (uint8_t *)k.p, k.n, cv);
        mon_sample(" add(%s)%s", mon_hex(k.p, k.n, 8), rc ? "=refused" : "");
        if (at < 0) {
            if (rc != AWS_OP_SUCCESS) {
                mon_violation("C11:object:add-refused", "add_to_object with new key %s refused (object has %zu members)", mon_hex(k.p, k.n, 60),
                              m->n);
                aws_json_value_destroy(cv);
                mn_free(cm);
            } else {
                mn_add(m, k.p, k.n, cm);
            }
            snprintf(what, sizeof(what), "add of a new key");
        } else {
            mon_flag(exact ? F_DUP_KEY_REFUSED : F_CASE_VARIANT_KEY_REFUSED);
            if (rc == AWS_OP_SUCCESS) {
                mon_violation(exact ? "C11:object:duplicate-key-accepted" : "C11:object:case-variant:add-accepted",
                              "add_to_object accepted key %s although member %ld has key %s", mon_hex(k.p, k.n, 60), at,
                              mon_hex(m->key[at], m->klen[at], 60));
                mn_add(m, k.p, k.n, cm); /* keep the reference in step */
            } else if (mon_chance(r, 1, 2)) {
                /* the refused value still belongs to the caller */
                aws_json_value_destroy(cv);
                mn_free(cm);
            } else {
                /* ... and can be added under another key */
                char sfx[24];
                snprintf(sfx, sizeof(sfx), "~%zu~%u", m->n, (unsigned)mon_below(r, 1000));
                sb_s(&k, sfx);
                if (mn_find(m, (uint8_t *)k.p, k.n) < 0) {
                    rc = aws_json_value_add_to_object_c_str(lib, k.p, cv);
                    if (rc != AWS_OP_SUCCESS) {
                        mon_violation("C11:object:add-refused", "re-adding a refused value under new key %s failed", mon_hex(k.p, k.n, 60));
                        aws_json_value_destroy(cv);
                        mn_free(cm);
                    } else {
                        mn_add(m, k.p, k.n, cm);
                    }
                } else {
                    aws_json_value_destroy(cv);
                    mn_free(cm);
                }
            }
            snprintf(what, sizeof(what), "refused add of an existing key");
        }
        (void)variant;
    } else if (pick < 75) {
        /* lookup: existing key (exact / case variant) or absent key */
        bool has = false;
        struct aws_json_value *g;
        unsigned kind = (unsigned)mon_below(r, 3);
        size_t i = (size_t)mon_below(r, m->n);
        if (kind == 0) {
            sb_put(&k, m->key[i], m->klen[i]);
        } else if (kind == 1) {
            case_variant(r, m->key[i], m->klen[i], &k);
        } else {
            gen_key(r, &k);
        }
        long at = mn_find(m, (uint8_t *)k.p, k.n);
        bool exact = at >= 0 && key_eq(m->key[at], m->klen[at], (uint8_t *)k.p, k.n);
        mon_fp(10 + (at >= 0) + exact);
        g = get_member(r, lib, (uint8_t *)k.p, k.n, &has);
        if (at < 0) {
            mon_flag(F_ABSENT_KEY);
            if (g || has) {
                mon_violation("C11:object:absent-key-found", "key %s is not in the object but get=%s has_key=%d", mon_hex(k.p, k.n, 60),
                              g ? "non-NULL" : "NULL", has);
            }
        } else {
            if (!exact) {
                mon_flag(F_CASE_VARIANT_LOOKUP);
            }
            if (g != m->kid[at]->lib || !has) {
                mon_violation(exact ? "C11:object:get" : "C11:object:case-variant:get",
                              "key %s (member %ld has %s): get_from_object %s, has_key=%d", mon_hex(k.p, k.n, 60), at,
                              mon_hex(m->key[at], m->klen[at], 60), g == NULL ? "returned NULL" : (g == m->kid[at]->lib ? "ok" : "returned another member"),
                              has);
            }
        }
        snprintf(what, sizeof(what), "lookup");
    } else {
        /* remove: existing (exact / variant) or absent */
        unsigned kind = (unsigned)mon_below(r, 4);
        size_t i = (size_t)mon_below(r, m->n);
        if (kind <= 1) {
            sb_put(&k, m->key[i], m->klen[i]);
        } else if (kind == 2) {
            case_variant(r, m->key[i], m->klen[i], &k);
        } else {
            gen_key(r, &k);
        }
        long at = mn_find(m, (uint8_t *)k.p, k.n);
        bool exact = at >= 0 && key_eq(m->key[at], m->klen[at], (uint8_t *)k.p, k.n);
        mon_fp(20 + (at >= 0) + exact);
        int rc = remove_member(r, lib, (uint8_t *)k.p, k.n);
        mon_sample(" remove(%s)%s", mon_hex(k.p, k.n, 8), rc ? "=ERR" : "");
        if (at < 0) {
            mon_flag(F_ABSENT_KEY);
            if (rc == AWS_OP_SUCCESS) {
                mon_violation("C11:object:remove-absent", "remove_from_object of absent key %s reported success", mon_hex(k.p, k.n, 60));
            }
        } else {
            if (rc != AWS_OP_SUCCESS) {
                mon_violation(exact ? "C11:object:remove" : "C11:object:case-variant:remove", "remove_from_object(%s) failed although member %ld has key %s",
                              mon_hex(k.p, k.n, 60), at, mon_hex(m->key[at], m->klen[at], 60));
            } else {
                mon_flag(F_OBJECT_REMOVE);
                mn_remove_at(m, (size_t)at);
                bool has = false;
                struct aws_json_value *g = get_member(r, lib, (uint8_t *)k.p, k.n, &has);
                long again = mn_find(m, (uint8_t *)k.p, k.n);
                if ((again < 0) != (g == NULL) || (again < 0) == has) {
                    mon_violation("C11:object:remove", "after removing key %s: get=%s has_key=%d, reference %s another member with that key",
                                  mon_hex(k.p, k.n, 60), g ? "non-NULL" : "NULL", has, again < 0 ? "has no" : "has");
                }
            }
        }
        snprintf(what, sizeof(what), "remove");
    }
    sb_free(&k);
    verify_container(lib, m, what);
}

static void array_op(struct mon_rng *r, struct aws_json_value *lib, struct mnode *m, struct budget *bg, int depth, bool prefer_add) {
    unsigned pick = (unsigned)mon_below(r, 100);
    if (prefer_add && pick >= 60) {
        pick = (unsigned)mon_below(r, 60);
    }
    const char *what;
    if (pick < 60 || m->n == 0) {
        struct mnode *cm = NULL;
        struct aws_json_value *cv = build_api(r, &cm, bg, depth + 1);
        mon_fp(30);
        int rc = aws_json_value_add_array_element(lib, cv);
        if (rc != AWS_OP_SUCCESS) {
            mon_violation("C11:array:add", "add_array_element failed on an array of %zu", m->n);
            aws_json_value_destroy(cv);
            mn_free(cm);
        } else {
            mn_add(m, NULL, 0, cm);
        }
        what = "add_array_element";
    } else if (pick < 75) {
        size_t i = (size_t)mon_below(r, m->n);
        mon_fp(31);
        struct aws_json_value *g = aws_json_get_array_element(lib, i);
        if (g != m->kid[i]->lib) {
            mon_violation("C11:array:get-index", "get_array_element(%zu) of %zu %s", i, m->n, g ? "returned another element" : "returned NULL");
        }
        what = "get_array_element";
    } else if (pick < 92) {
        size_t i;
        unsigned w = (unsigned)mon_below(r, 4);
        i = w == 0 ? 0 : (w == 1 ? m->n - 1 : (size_t)mon_below(r, m->n));
        mon_fp(32);
        int rc = aws_json_value_remove_array_element(lib, i);
        mon_sample(" remove[%zu/%zu]", i, m->n);
        if (rc != AWS_OP_SUCCESS) {
            mon_violation("C11:array:remove", "remove_array_element(%zu) of %zu failed", i, m->n);
        } else {
            mon_flag(i == 0 ? F_ARRAY_REMOVE_FIRST : (i == m->n - 1 ? F_ARRAY_REMOVE_LAST : F_ARRAY_REMOVE_MIDDLE));
            mn_remove_at(m, i);
        }
        what = "remove_array_element";
    } else if (pick < 96) {
        /* index == size: accepted as a no-op by the code; the property is silent, so only memory safety and
         * "nothing else changed" are checked (DESIGN.md, C11 workload) */
        mon_fp(33);
        mon_flag(F_INDEX_EQ_SIZE);
        (void)aws_json_get_array_element(lib, m->n);
        (void)aws_json_value_remove_array_element(lib, m->n);
        what = "get/remove at index == size";
    } else {
        size_t i = m->n + 1 + (size_t)mon_below(r, 5);
        if (mon_chance(r, 1, 4)) {
            i = mon_chance(r, 1, 2) ? (size_t)INT_MAX + 1 + m->n : SIZE_MAX - (size_t)mon_below(r, 3);
        }
        mon_fp(34);
        mon_flag(F_INDEX_BEYOND_SIZE);
        struct aws_json_value *g = aws_json_get_array_element(lib, i);
        int rc = aws_json_value_remove_array_element(lib, i);
        if (g || rc == AWS_OP_SUCCESS) {
            mon_violation("C11:array:index-out-of-range", "index %zu on an array of %zu: get=%s remove rc=%d", i, m->n, g ? "non-NULL" : "NULL", rc);
        }
        what = "get/remove beyond the end";
    }
    verify_container(lib, m, what);
}

static void container_ops(struct mon_rng *r, struct aws_json_value *lib, struct mnode *m, struct budget *bg, int depth, size_t nops,
                          bool building) {
    for (size_t op = 0; op < nops && mon_violations() < 5; ++op) {
        bool prefer_add = building && op * 3 < nops * 2;
        if (m->kind == K_OBJ) {
            object_op(r, lib, m, bg, depth, prefer_add);
        } else {
            array_op(r, lib, m, bg, depth, prefer_add);
        }
    }
    if (mon_chance(r, 1, 8)) {
        check_iterate_control(lib, m, r);
    }
}

static struct aws_json_value *build_api(struct mon_rng *r, struct mnode **out, struct budget *bg, int depth) {
    --bg->nodes;
    if (depth >= bg->maxdepth || bg->nodes <= 0 || mon_chance(r, 2, 5)) {
        return build_scalar(r, out);
    }
    bool obj = mon_chance(r, 1, 2);
    struct mnode *m = mn_new(obj ? K_OBJ : K_ARR);
    struct aws_json_value *v = obj ? aws_json_value_new_object(s_alloc) : aws_json_value_new_array(s_alloc);
    if (!v) {
        mon_violation("C11:create-failed", "aws_json_value_new_%s returned NULL", s_kind_names[m->kind]);
    }
    m->lib = v;
    size_t nops;
    switch (mon_below(r, 8)) {
        case 0:
            nops = 0;
            break;
        case 1:
            nops = depth == 0 ? (size_t)mon_range(r, 10, 40) : 6;
            break;
        default:
            nops = (size_t)mon_range(r, 1, 8);
            break;
    }
    mon_sample(" %s", obj ? "{" : "[");
    container_ops(r, v, m, bg, depth, nops, true);
    mon_sample(" %s", obj ? "}" : "]");
    *out = m;
    return v;
}

/* ------------------------------------------------------------------ model generator for the text path */
static struct mnode *gen_text_model(struct mon_rng *r, struct budget *bg, int depth) {
    --bg->nodes;
    if (depth >= bg->maxdepth || bg->nodes <= 0 || mon_chance(r, 2, 5)) {
        switch (mon_below(r, 8)) {
            case 0:
                return mn_new(K_NULL);
            case 1:
                return mn_new(mon_chance(r, 1, 2) ? K_TRUE : K_FALSE);
            case 2:
            case 3:
            case 4: {
                char lit[64];
                double v;
                gen_literal(r, lit, &v);
                struct mnode *m = mn_num(v);
                m->lit = (char *)dup_bytes(lit, strlen(lit));
                return m;
            }
            default: {
                struct sbuf s = {0};
                sb_put(&s, "", 0);
                gen_bytes(r, &s, gen_strlen(r));
                struct mnode *m = mn_str(s.p, s.n);
                sb_free(&s);
                return m;
            }
        }
    }
    bool obj = mon_chance(r, 1, 2);
    struct mnode *m = mn_new(obj ? K_OBJ : K_ARR);
    size_t n;
    switch (mon_below(r, 8)) {
        case 0:
            n = 0;
            break;
        case 1:
            n = depth == 0 ? (size_t)mon_range(r, 10, 40) : 5;
            break;
        default:
            n = (size_t)mon_range(r, 1, 6);
            break;
    }
    for (size_t i = 0; i < n; ++i) {
        struct sbuf k = {0};
        sb_put(&k, "", 0);
        if (obj) {
            /* text may repeat a key (exactly or in another letter case); the API cannot create that */
            if (m->n && mon_chance(r, 1, 10)) {
                size_t j = (size_t)mon_below(r, m->n);
                if (mon_chance(r, 1, 2)) {
                    sb_put(&k, m->key[j], m->klen[j]);
                } else {
                    case_variant(r, m->key[j], m->klen[j], &k);
                }
            } else {
                gen_key(r, &k);
            }
        }
        mn_add(m, k.p, k.n, gen_text_model(r, bg, depth + 1));
        sb_free(&k);
    }
    return m;
}

/* ------------------------------------------------------------------ serialise / re-read / duplicate */
static bool serialise(struct aws_json_value *v, bool formatted, struct sbuf *out, struct mon_rng *r) {
    /* pre-existing contents must survive: the function appends */
    static const char prefix[] = "PFX\x01[\"";
    size_t plen = (size_t)mon_below(r, sizeof(prefix));
    struct aws_byte_buf buf;
    aws_byte_buf_init(&buf, s_alloc, (size_t)mon_below(r, 80) + plen);
    if (plen) {
        struct aws_byte_cursor pc = aws_byte_cursor_from_array(prefix, plen);
        aws_byte_buf_append(&buf, &pc);
    }
    int rc = formatted ? aws_byte_buf_append_json_string_formatted(v, &buf) : aws_byte_buf_append_json_string(v, &buf);
    bool ok = true;
    if (rc != AWS_OP_SUCCESS) {
        mon_violation(formatted ? "C11:serialise:formatted:failed" : "C11:serialise:compact:failed", "append_json_string%s returned %d (error %d)",
                      formatted ? "_formatted" : "", rc, aws_last_error());
        ok = false;
    } else if (buf.len < plen || memcmp(buf.buffer, prefix, plen)) {
        mon_violation("C11:serialise:prefix-damaged", "the %zu bytes already in the buffer were not preserved (len now %zu)", plen, buf.len);
        ok = false;
    } else {
        sb_put(out, "", 0);
        sb_put(out, buf.buffer + plen, buf.len - plen);
        if (memchr(out->p, 0, out->n)) {
            mon_violation("C11:serialise:embedded-nul", "output of %zu bytes contains a NUL byte", out->n);
            ok = false;
        }
        if (out->n > 256) {
            mon_flag(F_PRINT_BUFFER_GREW);
        }
    }
    aws_byte_buf_clean_up_secure(&buf);
    return ok;
}

static struct aws_json_value *parse_text(const char *text, size_t n) {
    /* the cursor is followed by bytes that would change the document if the length were not honoured */
    uint8_t *st;
    struct aws_byte_cursor c = unterminated((const uint8_t *)text, n, &st);
    struct aws_json_value *v = aws_json_value_new_from_string(s_alloc, c);
    free(st);
    return v;
}

static void py_record(const char *origin, const struct mnode *m, const struct sbuf *c, const struct sbuf *f) {
    /* every p0-th case, thinned so that one process writes about 1000 records at most (thorough tier) */
    uint64_t every = mon_run.param[0] > 0 ? (uint64_t)mon_run.param[0] : 4;
    if (mon_run.count / 1000 > every) {
        every = mon_run.count / 1000;
    }
    if (!s_py || (s_case % every) != 0 || c->n + f->n > 60000 || mn_depth(m) > 100) {
        return;
    }
    struct sbuf mt = {0};
    wr_value(&mt, m, NULL, NULL);
    fprintf(s_py, "{\"case\":%llu,\"origin\":\"%s\",\"m\":\"", (unsigned long long)s_case, origin);
    for (size_t i = 0; i < mt.n; ++i) {
        fprintf(s_py, "%02x", (uint8_t)mt.p[i]);
    }
    fputs("\",\"c\":\"", s_py);
    for (size_t i = 0; i < c->n; ++i) {
        fprintf(s_py, "%02x", (uint8_t)c->p[i]);
    }
    fputs("\",\"f\":\"", s_py);
    for (size_t i = 0; i < f->n; ++i) {
        fprintf(s_py, "%02x", (uint8_t)f->p[i]);
    }
    fputs("\"}\n", s_py);
    sb_free(&mt);
    mon_count("python_records_written", 1);
}

static void note_reader_stats(const struct rd *st) {
    if (st->lit_int) {
        mon_flag(F_NUM_INT_FORMAT);
    }
    if (st->lit_le15) {
        mon_flag(F_NUM_15_DIGITS);
    }
    if (st->lit_17) {
        mon_flag(F_NUM_17_DIGITS);
    }
    if (st->lit_expo) {
        mon_flag(F_NUM_EXPONENT_FORM);
    }
    if (st->short_esc) {
        mon_flag(F_OUT_SHORT_ESCAPE);
    }
    if (st->u_esc) {
        mon_flag(F_OUT_U_ESCAPE);
    }
    if (st->high_raw) {
        mon_flag(F_OUT_RAW_HIGH_BYTES);
    }
    mon_count("out_numbers_integer_format", st->lit_int);
    mon_count("out_numbers_le15_digits", st->lit_le15);
    mon_count("out_numbers_16_17_digits", st->lit_17);
}

/* L is the library tree, M the generating tree (its numbers are what L must hold exactly) */
static void containers_of(struct mnode *m, struct mnode ***list, size_t *n, size_t *cap);

static bool roundtrip(struct aws_json_value *L, const struct mnode *M, const char *origin, struct mon_rng *r) {
    bool ok = true;
    struct sbuf out[2] = {{0}, {0}};
    struct mnode *reread[2] = {NULL, NULL};
    static const char *fmt_name[2] = {"compact", "formatted"};
    char stage[48], key[96];
    for (int f = 0; f < 2 && ok; ++f) {
        if (!serialise(L, f == 1, &out[f], r)) {
            ok = false;
            break;
        }
        /* (1) independent strict reader: output is valid JSON and denotes the generating tree */
        struct rd st;
        struct mnode *rm = strict_read(out[f].p, out[f].n, &st);
        if (!rm) {
            snprintf(key, sizeof(key), "C11:output-not-valid-json:%s", fmt_name[f]);
            size_t from = st.i > 24 ? st.i - 24 : 0;
            mon_violation(key, "strict RFC 8259 reader: %s at offset %zu of %zu; text around it (hex): %s", st.err ? st.err : "?", st.i,
                          out[f].n, mon_hex(out[f].p + from, out[f].n - from, 60));
            ok = false;
            break;
        }
        if (f == 0) {
            note_reader_stats(&st);
        }
        snprintf(stage, sizeof(stage), "reader-%s", fmt_name[f]);
        ok = model_cmp(M, rm, CMP_TOL, stage) && ok;
        /* (2) the library's own parser on its own output */
        struct aws_json_value *L2 = parse_text(out[f].p, out[f].n);
        if (!L2) {
            snprintf(key, sizeof(key), "C11:reparse-rejected:%s", fmt_name[f]);
            mon_violation(key, "the library does not parse its own %s output (%zu bytes): %s", fmt_name[f], out[f].n,
                          mon_hex(out[f].p, out[f].n, 100));
            ok = false;
        } else {
            reread[f] = extract(L2);
            snprintf(stage, sizeof(stage), "reread-%s", fmt_name[f]);
            ok = model_cmp(M, reread[f], CMP_TOL, stage) && ok;
            /* both parsers read the same text: identical, not merely close */
            snprintf(stage, sizeof(stage), "library-vs-reader-%s", fmt_name[f]);
            ok = model_cmp(rm, reread[f], CMP_EXACT, stage) && ok;
            aws_json_value_destroy(L2);
        }
        mn_free(rm);
    }
    if (ok && reread[0] && reread[1]) {
        ok = model_cmp(reread[0], reread[1], CMP_EXACT, "compact-vs-formatted") && ok;
    }
    if (ok) {
        py_record(origin, M, &out[0], &out[1]);
    }
    mn_free(reread[0]);
    mn_free(reread[1]);
    sb_free(&out[0]);
    sb_free(&out[1]);

    /* duplicate: identical when read back, and compares equal to its original */
    struct aws_json_value *D = aws_json_value_duplicate(L);
    if (!D) {
        mon_violation("C11:duplicate:failed", "aws_json_value_duplicate returned NULL (error %d)", aws_last_error());
        return false;
    }
    struct mnode *dm = extract(D);
    bool dup_same = model_cmp(M, dm, CMP_EXACT, "duplicate");
    ok = dup_same && ok;
    if (mn_objdepth(M) <= OBJDEPTH_COMPARE_LIMIT) {
        mon_flag(F_COMPARE_DUPLICATE);
        for (int cs = 0; cs < 2; ++cs) {
            bool eq = aws_json_value_compare(D, L, cs == 1) && aws_json_value_compare(L, D, cs == 1);
            if (!eq) {
                /* a text-parsed object may hold two members with the same key: its own failure class */
                bool dups = mn_has_dupkeys(M, cs == 0);
                struct sbuf mt = {0};
                wr_value(&mt, M, NULL, NULL);
                mon_violation(dups ? "C11:compare-duplicate:duplicate-keys" : "C11:compare-duplicate",
                              "aws_json_value_compare(duplicate, original, is_case_sensitive=%d) is false%s; tree: %.700s", cs,
                              dups ? " (the tree holds an object with two members whose keys are equal under that comparison)" : "",
                              mt.p);
                sb_free(&mt);
                ok = false;
            }
        }
    } else {
        mon_count("compare_skipped_object_depth_gt_10", 1);
    }
    /* a duplicate is a value tree like any other: object and array access on it must be coherent too (add / get /
     * has / remove on one of its containers, checked against the model extracted from the duplicate) */
    if (dup_same && ok && mn_depth(dm) < MAX_DEPTH - 2 && mon_chance(r, 3, 4)) {
        struct mnode **list = NULL;
        size_t n = 0, cap = 0;
        containers_of(dm, &list, &n, &cap);
        if (n) {
            /* prefer small containers: empty and one-member containers are where list surgery goes wrong */
            struct mnode *c = list[mon_below(r, n)];
            for (int tries = 0; tries < 3 && c->n > 1; ++tries) {
                struct mnode *c2 = list[mon_below(r, n)];
                if (c2->n < c->n) {
                    c = c2;
                }
            }
            struct budget bg = {6, MAX_DEPTH};
            mon_flag(F_OPS_ON_DUPLICATE);
            mon_sample(" ops-on-duplicate:");
            container_ops(r, c->lib, c, &bg, MAX_DEPTH - 2, 1 + (size_t)mon_below(r, 4), true);
            mon_count("container_ops_on_duplicates", 1);
        }
        free(list);
    }
    mn_free(dm);
    aws_json_value_destroy(D);
    return ok;
}

/* ------------------------------------------------------------------ cases */
static void check_balance(const struct mon_alloc_stats *st0, const char *when) {
    struct mon_alloc_stats st1;
    mon_guard_stats(&st1);
    if (st1.live_blocks != st0->live_blocks) {
        mon_violation("C11:leak", "%s: %lld blocks (%lld bytes) of the JSON module allocator still live", when,
                      (long long)(st1.live_blocks - st0->live_blocks), (long long)(st1.live_bytes - st0->live_bytes));
    }
}

static bool mn_any_invalid_utf8(const struct mnode *m) {
    if (m->kind == K_STR && !utf8_valid(m->str, m->slen)) {
        return true;
    }
    for (size_t i = 0; i < m->n; ++i) {
        if ((m->kind == K_OBJ && !utf8_valid(m->key[i], m->klen[i])) || mn_any_invalid_utf8(m->kid[i])) {
            return true;
        }
    }
    return false;
}

static void finish_tree(struct aws_json_value *L, struct mnode *M, const char *origin, struct mon_rng *r, const struct mon_alloc_stats *st0) {
    mn_fp(M);
    if (mn_any_invalid_utf8(M)) {
        mon_flag(F_INVALID_UTF8_BYTES);
    }
    mon_count("nodes", mn_count(M));
    mon_count_max("max_depth", mn_depth(M));
    bool ok = roundtrip(L, M, origin, r);
    aws_json_value_destroy(L);
    check_balance(st0, "after destroying the tree, its duplicate and both re-parsed trees");
    (void)ok;
}

/* tree built through the API */
static void case_api(struct mon_rng *r, struct budget bg) {
    struct mon_alloc_stats st0, st1;
    mon_guard_stats(&st0);
    struct mnode *M = NULL;
    mon_sample("api:");
    struct aws_json_value *L = build_api(r, &M, &bg, 0);
    if (!L) {
        mn_free(M);
        return;
    }
    mon_flag(F_API_BUILT);
    mon_guard_stats(&st1);
    size_t nodes = mn_count(M);
    /* every node of the tree must have come from the module allocator handed to aws_common_library_init */
    if (st1.live_blocks - st0.live_blocks < nodes) {
        mon_violation("C11:allocator-not-used", "tree of %zu nodes but only %llu live blocks in the module allocator", nodes,
                      (unsigned long long)(st1.live_blocks - st0.live_blocks));
    }
    struct mnode *E = extract(L);
    model_cmp(M, E, CMP_EXACT, "built");
    mn_free(E);
    finish_tree(L, M, "api", r, &st0);
    mn_free(M);
}

/* collects the container nodes of a model tree */
static void containers_of(struct mnode *m, struct mnode ***list, size_t *n, size_t *cap) {
    if (m->kind != K_ARR && m->kind != K_OBJ) {
        return;
    }
    if (*n == *cap) {
        *cap = *cap ? *cap * 2 : 16;
        *list = realloc(*list, *cap * sizeof(**list));
    }
    (*list)[(*n)++] = m;
    for (size_t i = 0; i < m->n; ++i) {
        containers_of(m->kid[i], list, n, cap);
    }
}

/* tree parsed from text written by the harness */
static void case_text(struct mon_rng *r, struct mnode *M /* consumed */, bool with_ops) {
    struct mon_alloc_stats st0;
    mon_guard_stats(&st0);
    struct sbuf text = {0};
    struct wstats ws;
    memset(&ws, 0, sizeof(ws));
    wr_ws(&text, r, &ws);
    wr_value(&text, M, r, &ws);
    wr_ws(&text, r, &ws);
    mon_sample("text(%zu bytes): %.300s", text.n, text.n < 4000 ? mon_hex(text.p, text.n, 150) : "...");
    struct aws_json_value *L = parse_text(text.p, text.n);
    if (!L) {
        mon_violation("C11:parse:own-text-rejected", "valid JSON text from the harness writer rejected (%zu bytes): %s", text.n,
                      mon_hex(text.p, text.n, 200));
        sb_free(&text);
        mn_free(M);
        check_balance(&st0, "after a rejected parse");
        return;
    }
    mon_flag(F_TEXT_PARSED);
    if (ws.u_esc) {
        mon_flag(F_IN_U_ESCAPE);
    }
    if (ws.surrogate) {
        mon_flag(F_IN_SURROGATE_PAIR);
    }
    if (ws.solidus) {
        mon_flag(F_IN_SOLIDUS_ESCAPE);
    }
    if (ws.expo) {
        mon_flag(F_IN_EXPONENT_LITERAL);
    }
    if (ws.ws) {
        mon_flag(F_IN_WHITESPACE);
    }
    if (mn_has_dupkeys(M, true)) {
        mon_flag(F_TEXT_DUPLICATE_KEYS);
    }
    /* second opinion on the harness writer: the strict reader must read the text as M as well */
    struct rd st;
    struct mnode *own = strict_read(text.p, text.n, &st);
    if (!own || !model_cmp(M, own, CMP_EXACT, "harness-writer-self-check")) {
        mon_violation("C11:harness:writer-self-check", "harness writer/reader disagree (%s at %zu): %s", st.err ? st.err : "tree differs", st.i,
                      mon_hex(text.p, text.n, 200));
    }
    mn_free(own);
    sb_free(&text);
    struct mnode *E = extract(L);
    bool same = model_cmp(M, E, CMP_EXACT, "parsed");
    mn_free(M);
    if (same && with_ops) {
        /* add/get/remove on a container of the parsed tree (first matching member wins for repeated keys) */
        struct mnode **list = NULL;
        size_t n = 0, cap = 0;
        containers_of(E, &list, &n, &cap);
        if (n) {
            struct mnode *c = list[mon_below(r, n)];
            struct budget bg = {6, MAX_DEPTH};
            mon_sample(" ops:");
            container_ops(r, c->lib, c, &bg, MAX_DEPTH - 2, 1 + (size_t)mon_below(r, 4), false);
        }
        free(list);
    }
    finish_tree(L, E, "text", r, &st0);
    mn_free(E);
}

/* chains of up to 998 nested containers */
static void case_chain(struct mon_rng *r) {
    static const size_t depths[] = {998, 998, 997, 512, 500, 300, 129, 64};
    size_t depth = depths[mon_below(r, sizeof(depths) / sizeof(depths[0]))];
    if (mon_chance(r, 1, 3)) {
        depth = (size_t)mon_range(r, 100, 998);
    }
    unsigned shape = (unsigned)mon_below(r, 4); /* 0 arrays, 1 objects, 2 alternating, 3 random */
    bool api = mon_chance(r, 1, 2);
    mon_fp(0xC4A1 + depth * 8 + shape * 2 + api);
    mon_sample("chain depth=%zu shape=%u %s", depth, shape, api ? "api" : "text");
    struct mon_alloc_stats st0;
    mon_guard_stats(&st0);
    struct mnode *M = NULL;
    struct aws_json_value *L = NULL;
    struct budget leafbg = {1, 0};
    if (api) {
        L = build_api(r, &M, &leafbg, 0);
    } else {
        M = gen_text_model(r, &leafbg, 0);
    }
    for (size_t lvl = 0; lvl < depth; ++lvl) {
        bool obj = shape == 1 || (shape == 2 && (lvl & 1)) || (shape == 3 && mon_chance(r, 1, 2));
        struct mnode *p = mn_new(obj ? K_OBJ : K_ARR);
        struct sbuf k = {0};
        sb_put(&k, "", 0);
        if (obj) {
            gen_key(r, &k);
        }
        mn_add(p, k.p, k.n, M);
        if (api) {
            struct aws_json_value *pv = obj ? aws_json_value_new_object(s_alloc) : aws_json_value_new_array(s_alloc);
            int rc = obj ? add_member(r, pv, (uint8_t *)k.p, k.n, L) : aws_json_value_add_array_element(pv, L);
            if (rc != AWS_OP_SUCCESS) {
                mon_violation(obj ? "C11:object:add-refused" : "C11:array:add", "wrapping level %zu of a chain failed", lvl);
            }
            p->lib = pv;
            L = pv;
        }
        sb_free(&k);
        M = p;
    }
    if (depth >= 500) {
        mon_flag(F_DEEP_CHAIN);
    }
    mon_count("chains", 1);
    if (api) {
        mon_flag(F_API_BUILT);
        struct mnode *E = extract(L);
        model_cmp(M, E, CMP_EXACT, "built");
        mn_free(E);
        finish_tree(L, M, "chain-api", r, &st0);
        mn_free(M);
    } else {
        case_text(r, M, false);
    }
}

/* builds the library tree of a model tree through the API (object keys of the model must be unique) */
static struct aws_json_value *api_from_model(struct mon_rng *r, struct mnode *m) {
    struct aws_json_value *v = NULL;
    switch (m->kind) {
        case K_NULL:
            v = aws_json_value_new_null(s_alloc);
            break;
        case K_TRUE:
        case K_FALSE:
            v = aws_json_value_new_boolean(s_alloc, m->kind == K_TRUE);
            break;
        case K_NUM:
            v = aws_json_value_new_number(s_alloc, m->num);
            break;
        case K_STR:
            v = aws_json_value_new_string(s_alloc, aws_byte_cursor_from_array(m->str, m->slen));
            break;
        case K_ARR:
            v = aws_json_value_new_array(s_alloc);
            for (size_t i = 0; v && i < m->n; ++i) {
                struct aws_json_value *k = api_from_model(r, m->kid[i]);
                if (!k || aws_json_value_add_array_element(v, k) != AWS_OP_SUCCESS) {
                    mon_violation("C11:array:add", "add_array_element %zu failed while building a wide tree", i);
                    aws_json_value_destroy(k);
                }
            }
            break;
        default:
            v = aws_json_value_new_object(s_alloc);
            for (size_t i = 0; v && i < m->n; ++i) {
                struct aws_json_value *k = api_from_model(r, m->kid[i]);
                if (!k || add_member(r, v, m->key[i], m->klen[i], k) != AWS_OP_SUCCESS) {
                    mon_violation("C11:object:add-refused", "add_to_object of member %zu failed while building a wide tree", i);
                    aws_json_value_destroy(k);
                }
            }
            break;
    }
    if (!v) {
        mon_violation("C11:create-failed", "aws_json_value_new_%s returned NULL", s_kind_names[m->kind]);
    }
    m->lib = v;
    return v;
}

static struct mnode *wide_item(struct mon_rng *r, unsigned mix, size_t *containers) {
    unsigned k = mix == 0 ? 0 : mix == 1 ? 1 : (unsigned)mon_below(r, 6);
    struct mnode *m;
    switch (k) {
        case 0:
            m = mn_new(K_ARR);
            ++*containers;
            break;
        case 1:
            m = mn_new(K_OBJ);
            ++*containers;
            break;
        case 2:
            m = mn_new(K_ARR);
            mn_add(m, NULL, 0, mn_num((double)mon_below(r, 1000)));
            ++*containers;
            break;
        case 3:
            m = mn_new(K_OBJ);
            mn_add(m, "tags", 4, mn_new(K_ARR));
            mn_add(m, "attrs", 5, mn_new(K_OBJ));
            *containers += 3;
            break;
        case 4:
            m = mn_new(K_OBJ);
            mn_add(m, "k", 1, mn_new(mon_chance(r, 1, 2) ? K_TRUE : K_NULL));
            ++*containers;
            break;
        default:
            m = mn_num((double)mon_below(r, 100000));
            break;
    }
    return m;
}

/* shallow but wide trees: hundreds to thousands of (mostly empty or tiny) containers in ONE text, below, at and
 * beyond the vendored parser's nesting limit of 1000 counted in containers instead of in depth */
static void case_wide(struct mon_rng *r) {
    static const size_t counts[] = {998, 999, 1000, 1001, 1024, 1500, 2500, 500};
    size_t n = counts[mon_below(r, sizeof(counts) / sizeof(counts[0]))];
    if (mon_chance(r, 1, 3)) {
        n = (size_t)mon_range(r, 300, 3000);
    }
    unsigned shape = (unsigned)mon_below(r, 4); /* 0 flat array, 1 flat object, 2 array chain with siblings, 3 two-level */
    unsigned mix = (unsigned)mon_below(r, 4);   /* 0 all [], 1 all {}, 2/3 mixed */
    bool api = mon_chance(r, 1, 2);
    mon_fp(0x71DE + n * 64 + shape * 8 + mix * 2 + api);
    mon_sample("wide n=%zu shape=%u mix=%u %s", n, shape, mix, api ? "api" : "text");
    size_t containers = 1;
    struct mnode *M;
    if (shape == 1) {
        M = mn_new(K_OBJ);
        for (size_t i = 0; i < n; ++i) {
            char key[24];
            int kl = snprintf(key, sizeof(key), "m%zu", i);
            mn_add(M, key, (size_t)kl, wide_item(r, mix, &containers));
        }
    } else if (shape == 2) {
        /* chain of arrays, every level holding a few small siblings in front of (or behind) the child */
        size_t depth = (size_t)mon_range(r, 20, 600);
        size_t per = n / depth + 1;
        M = mn_new(K_ARR);
        for (size_t lvl = 0; lvl < depth; ++lvl) {
            struct mnode *p = mn_new(K_ARR);
            ++containers;
            bool child_first = mon_chance(r, 1, 4);
            if (child_first) {
                mn_add(p, NULL, 0, M);
            }
            for (size_t i = 0; i < per; ++i) {
                mn_add(p, NULL, 0, wide_item(r, mix, &containers));
            }
            if (!child_first) {
                mn_add(p, NULL, 0, M);
            }
            M = p;
        }
    } else if (shape == 3) {
        M = mn_new(K_ARR);
        size_t groups = 1 + (size_t)mon_below(r, 30);
        for (size_t g = 0; g < groups; ++g) {
            struct mnode *grp = mn_new(K_ARR);
            ++containers;
            for (size_t i = 0; i < n / groups + 1; ++i) {
                mn_add(grp, NULL, 0, wide_item(r, mix, &containers));
            }
            mn_add(M, NULL, 0, grp);
        }
    } else {
        M = mn_new(K_ARR);
        for (size_t i = 0; i < n; ++i) {
            mn_add(M, NULL, 0, wide_item(r, mix, &containers));
        }
    }
    if (containers >= 1000) {
        mon_flag(F_WIDE_MANY_CONTAINERS);
    }
    mon_count("wide_trees", 1);
    mon_count_max("max_containers_in_one_text", containers);
    if (api) {
        struct mon_alloc_stats st0;
        mon_guard_stats(&st0);
        struct aws_json_value *L = api_from_model(r, M);
        mon_flag(F_API_BUILT);
        struct mnode *E = extract(L);
        model_cmp(M, E, CMP_EXACT, "built");
        mn_free(E);
        finish_tree(L, M, "wide-api", r, &st0);
        mn_free(M);
    } else {
        case_text(r, M, false);
    }
}

/* deterministic sweeps (independent of the seed): case indices 0..9 */
static void sweep_numbers(struct mon_rng *r, int which, bool text) {
    struct mnode *M = mn_new(K_ARR);
    bool neg = which & 1;
    mon_fp(0x5EE9 + (uint64_t)which * 2 + text);
    if (which < 2) {
        /* all integers 2^k-1, 2^k, 2^k+1 up to 2^63 (those that are doubles; the others round) */
        for (int k = 0; k < 64; ++k) {
            for (int o = -1; o <= 1; ++o) {
                uint64_t v = ((uint64_t)1 << k) + (uint64_t)o;
                double d = (double)v;
                mn_add(M, NULL, 0, mn_num(neg ? -d : d));
                char lit[32];
                snprintf(lit, sizeof(lit), "%s%llu", neg ? "-" : "", (unsigned long long)v);
                M->kid[M->n - 1]->lit = (char *)dup_bytes(lit, strlen(lit));
                M->kid[M->n - 1]->num = strtod(lit, NULL);
            }
        }
    } else {
        static const double sp[] = {0.0, -0.0, DBL_MAX, DBL_MIN, 4.9406564584124654e-324, 9.8813129168249309e-324, 2.2250738585072009e-308,
                                    1.7976931348623155e308, 2147483646.0, 2147483647.0, 2147483648.0, 2147483649.0, 2147483647.5,
                                    2147483646.5, 2147483647.000001, 2147483648.5, 9007199254740991.0, 9007199254740992.0,
                                    9007199254740994.0, 0.1, 0.2, 0.30000000000000004, 1.0 / 3.0, 2.0 / 3.0, 1e15, 1e16, 1e17, 1e21, 1e22,
                                    1e23, 1e-5, 1e-6, 1e-7, 123456789012345.0, 1234567890123456.0, 12345678901234567.0, 999999999999999.0,
                                    9999999999999998.0, 0.999999999999999, 0.9999999999999999, 1.0000000000000002, 1e308, 1e-308,
                                    4294967296.0, 1e100, 1e-100, 5e-324, 1.5, 2.5e-5, 6.02214076e23, 1.602176634e-19};
        for (size_t i = 0; i < sizeof(sp) / sizeof(sp[0]); ++i) {
            mn_add(M, NULL, 0, mn_num(neg ? -sp[i] : sp[i]));
        }
        /* 2^k minus 1..3 ulp and plus 1 ulp: where 15 digits round across a power of two */
        for (int k = -30; k <= 64; ++k) {
            for (int o = -3; o <= 1; ++o) {
                double d = from_bits(bits_of(pow2(k)) + (uint64_t)(int64_t)o);
                mn_add(M, NULL, 0, mn_num(neg ? -d : d));
            }
        }
    }
    mon_flag(F_SWEEP);
    mon_count("sweep_numbers", M->n);
    if (text) {
        /* integer sweep: exact decimal literals; special values: "%.17g" */
        case_text(r, M, false);
        return;
    }
    /* API path */
    struct mon_alloc_stats st0;
    mon_guard_stats(&st0);
    struct aws_json_value *L = aws_json_value_new_array(s_alloc);
    M->lib = L;
    for (size_t i = 0; i < M->n; ++i) {
        struct aws_json_value *v = aws_json_value_new_number(s_alloc, M->kid[i]->num);
        M->kid[i]->lib = v;
        if (aws_json_value_add_array_element(L, v) != AWS_OP_SUCCESS) {
            mon_violation("C11:array:add", "add_array_element failed in the number sweep at %zu", i);
        }
    }
    mon_flag(F_API_BUILT);
    struct mnode *E = extract(L);
    model_cmp(M, E, CMP_EXACT, "built");
    mn_free(E);
    finish_tree(L, M, "sweep-api", r, &st0);
    mn_free(M);
}

/* every byte value 1..255 as a one-byte string, as a key, and embedded in a longer string */
static void sweep_bytes(struct mon_rng *r, int which) {
    mon_flag(F_SWEEP);
    if (which == 0) {
        struct mon_alloc_stats st0;
        mon_guard_stats(&st0);
        struct mnode *M = mn_new(K_OBJ);
        struct aws_json_value *L = aws_json_value_new_object(s_alloc);
        M->lib = L;
        size_t refused = 0;
        for (unsigned b = 1; b < 256; ++b) {
            uint8_t key[2] = {(uint8_t)b, 0};
            uint8_t val[4] = {'<', (uint8_t)b, '>', 0};
            struct aws_json_value *v = aws_json_value_new_string_from_c_str(s_alloc, (const char *)val);
            long at = mn_find(M, key, 1);
            int rc = (b & 1) ? aws_json_value_add_to_object_c_str(L, (const char *)key, v)
                             : aws_json_value_add_to_object(L, aws_byte_cursor_from_array(key, 1), v);
            if (at >= 0) {
                /* 'a'..'z' after 'A'..'Z': same key under the case-insensitive duplicate test */
                ++refused;
                mon_flag(F_CASE_VARIANT_KEY_REFUSED);
                if (rc == AWS_OP_SUCCESS) {
                    mon_violation("C11:object:case-variant:add-accepted", "key byte 0x%02x accepted although key 0x%02x is present", b,
                                  M->key[at][0]);
                    struct mnode *c = mn_str(val, 3);
                    c->lib = v;
                    mn_add(M, key, 1, c);
                } else {
                    aws_json_value_destroy(v);
                }
            } else if (rc != AWS_OP_SUCCESS) {
                mon_violation("C11:object:add-refused", "one-byte key 0x%02x refused", b);
                aws_json_value_destroy(v);
            } else {
                struct mnode *c = mn_str(val, 3);
                c->lib = v;
                mn_add(M, key, 1, c);
            }
        }
        mon_count("sweep_key_bytes", 255);
        verify_container(L, M, "byte sweep");
        mon_flag(F_API_BUILT);
        struct mnode *E = extract(L);
        model_cmp(M, E, CMP_EXACT, "built");
        mn_free(E);
        finish_tree(L, M, "sweep-api", r, &st0);
        mn_free(M);
        (void)refused;
    } else {
        /* text: each byte in three random spellings as array element, plus as key (keys may repeat by case: allowed in text) */
        struct mnode *M = mn_new(K_ARR);
        struct mnode *O = mn_new(K_OBJ);
        for (unsigned b = 1; b < 256; ++b) {
            uint8_t one[1] = {(uint8_t)b};
            for (int k = 0; k < 3; ++k) {
                mn_add(M, NULL, 0, mn_str(one, 1));
            }
            mn_add(O, one, 1, mn_str(one, 1));
        }
        /* every BMP boundary and a few supplementary code points, written as escapes by the hostile writer at random */
        static const uint32_t cps[] = {0x7F, 0x80, 0xFF, 0x100, 0x7FF, 0x800, 0xFFF, 0x1000, 0xD7FF, 0xE000, 0xFFFD, 0xFFFE, 0xFFFF,
                                       0x10000, 0x10001, 0x1F600, 0xFFFFF, 0x100000, 0x10FFFF};
        for (int rep = 0; rep < 6; ++rep) {
            for (size_t i = 0; i < sizeof(cps) / sizeof(cps[0]); ++i) {
                uint8_t tmp[4];
                size_t l = utf8_encode(cps[i], tmp);
                mn_add(M, NULL, 0, mn_str(tmp, l));
            }
        }
        mn_add(M, NULL, 0, O);
        mon_count("sweep_string_bytes", 255);
        case_text(r, M, false);
    }
}

static void run_case(uint64_t c) {
    struct mon_rng *r = &mon_case_rng;
    s_case = c;
    if (c < 8) {
        /* 0,1: integers 2^k+-1 as text; 2,3: special values through the API; 4,5: the same through text;
         * 6,7: integers through the API (values as doubles) */
        sweep_numbers(r, (int)(c < 4 ? c : (c < 6 ? c - 2 : c - 6)), c < 2 || c == 4 || c == 5);
        return;
    }
    if (c < 10) {
        sweep_bytes(r, (int)(c - 8));
        return;
    }
    unsigned pick = (unsigned)mon_below(r, 128);
    if (pick < 2) {
        case_chain(r);
        return;
    }
    if (pick < 4) {
        case_wide(r);
        return;
    }
    struct budget bg;
    bg.maxdepth = (int)mon_range(r, 1, MAX_DEPTH);
    switch (mon_below(r, 16)) {
        case 0:
            bg.nodes = (int)mon_range(r, 100, 400);
            break;
        case 1:
        case 2:
            bg.nodes = (int)mon_range(r, 1, 6);
            break;
        default:
            bg.nodes = (int)mon_range(r, 8, 60);
            break;
    }
    mon_fp((uint64_t)bg.nodes * 16 + (uint64_t)bg.maxdepth);
    if (pick & 1) {
        case_api(r, bg);
    } else {
        case_text(r, gen_text_model(r, &bg, 0), mon_chance(r, 1, 2));
    }
}

int main(int argc, char **argv) {
    mon_init(argc, argv, "C11");
    s_alloc = mon_guard_allocator();
    /* initialises the JSON module (cJSON hooks) with the guard allocator: every node, key and print buffer is counted */
    aws_common_library_init(s_alloc);
    for (int i = 0; i < F_NFLAGS; ++i) {
        mon_flag_name(i, s_flag_names[i]);
    }
    char path[4096];
    snprintf(path, sizeof(path), "%s/py.%d", mon_run.outdir, mon_run.slice);
    s_py = fopen(path, "w");
    uint64_t c;
    while (mon_next_case(&c)) {
        mon_case_begin(c);
        run_case(c);
        mon_case_end(mon_flag_count() >= 4);
    }
    mon_count("numbers_inexact_within_tolerance", s_inexact);
    mon_count("numbers_within_symmetric_tolerance_only", s_symmetric_only);
    if (s_py) {
        fclose(s_py);
    }
    return mon_finish();
}
