/*
 * C11 - JSON values survive serialise / parse, object and array access is coherent
 * (DESIGN.md section 5, C11).
 *
 * Oracle, in short:
 *   - a harness-side model tree (struct mnode) is the generating tree; library trees are built
 *     (a) through the API by small programs of add/get/has/remove calls checked against an ordered
 *     association list with ASCII-case-insensitive keys, or (b) by parsing text from the harness's own
 *     writer (escapes, number forms and whitespace the library's printer never emits);
 *   - every library tree is read back through the PUBLIC API only (is_x, get_x, const_iterate_x, get by
 *     index / key) into a model tree and compared with the generating tree;
 *   - compact and formatted output are (1) read by an independent strict RFC 8259 reader in this file,
 *     (2) re-parsed by the library, and both must give the generating tree: same structure, order, string
 *     bytes, booleans/nulls, numbers exact when strtod("%.15g") reproduces them, else within 2^-52 relative;
 *   - duplicate must read back identical and compare equal; allocator balance after destroy
 *     (the JSON module allocator is the guard allocator, so every cJSON node is counted);
 *   - a sample of (model text, compact, formatted) goes to py.<slice> for Python's json (tools/oracles/c11_json.py).
 */
#include "mon.h"

#include <aws/common/byte_buf.h>
#include <aws/common/common.h>
#include <aws/common/error.h>
#include <aws/common/json.h>

#include <float.h>
#include <limits.h>
#include <math.h>
#include <stdlib.h>

enum {
    F_API_BUILT,
    F_TEXT_PARSED,
    F_NUM_INT_FORMAT,
    F_NUM_15_DIGITS,
    F_NUM_17_DIGITS,
    F_NUM_EXPONENT_FORM,
    F_NUM_INEXACT_WITHIN_TOL,
    F_OUT_SHORT_ESCAPE,
    F_OUT_U_ESCAPE,
    F_OUT_RAW_HIGH_BYTES,
    F_IN_U_ESCAPE,
    F_IN_SURROGATE_PAIR,
    F_IN_SOLIDUS_ESCAPE,
    F_IN_EXPONENT_LITERAL,
    F_IN_WHITESPACE,
    F_DUP_KEY_REFUSED,
    F_CASE_VARIANT_KEY_REFUSED,
    F_CASE_VARIANT_LOOKUP,
    F_OBJECT_REMOVE,
    F_ARRAY_REMOVE_FIRST,
    F_ARRAY_REMOVE_MIDDLE,
    F_ARRAY_REMOVE_LAST,
    F_INDEX_EQ_SIZE,
    F_INDEX_BEYOND_SIZE,
    F_ABSENT_KEY,
    F_DEEP_CHAIN,
    F_PRINT_BUFFER_GREW,
    F_TEXT_DUPLICATE_KEYS,
    F_COMPARE_DUPLICATE,
    F_INVALID_UTF8_BYTES,
    F_ITERATE_EARLY_STOP,
    F_SWEEP,
    F_NFLAGS
};
static const char *s_flag_names[F_NFLAGS] = {
    "tree_built_through_api", "tree_parsed_from_harness_text", "out_number_integer_format", "out_number_le15_digits",
    "out_number_16_17_digits", "out_number_exponent_form", "number_inexact_within_tolerance", "out_short_escape",
    "out_u00xx_escape", "out_raw_bytes_ge_0x80", "in_uXXXX_escape", "in_surrogate_pair", "in_escaped_solidus",
    "in_exponent_literal", "in_extra_whitespace", "duplicate_key_refused", "case_variant_key_refused",
    "case_variant_lookup", "object_member_removed", "array_remove_first", "array_remove_middle", "array_remove_last",
    "array_index_eq_size", "array_index_beyond_size", "absent_key_lookup", "deep_chain_ge_500", "print_buffer_grew_gt_256",
    "text_tree_duplicate_keys", "compare_duplicate_checked", "strings_with_invalid_utf8", "iterate_early_stop",
    "sweep_case"};

#define MAX_DEPTH 8
#define OBJDEPTH_COMPARE_LIMIT 10 /* cJSON_Compare visits nested objects 2^depth times (see report) */

static struct aws_allocator *s_alloc;
static FILE *s_py;
static uint64_t s_case;

/* ------------------------------------------------------------------ growable byte buffer */
struct sbuf {
    char *p;
    size_t n, cap;
};
static void sb_reserve(struct sbuf *b, size_t more) {
    if (b->n + more + 1 > b->cap) {
        size_t nc = b->cap ? b->cap * 2 : 256;
        while (nc < b->n + more + 1) {
            nc *= 2;
        }
        b->p = realloc(b->p, nc);
        b->cap = nc;
    }
}
static void sb_put(struct sbuf *b, const void *src, size_t n) {
    sb_reserve(b, n);
    if (n) {
        memcpy(b->p + b->n, src, n);
    }
    b->n += n;
    b->p[b->n] = 0;
}
static void sb_c(struct sbuf *b, char c) {
    sb_put(b, &c, 1);
}
static void sb_s(struct sbuf *b, const char *s) {
    sb_put(b, s, strlen(s));
}
static void sb_free(struct sbuf *b) {
    free(b->p);
    b->p = NULL;
    b->n = b->cap = 0;
}

/* ------------------------------------------------------------------ model tree */
enum { K_NULL, K_FALSE, K_TRUE, K_NUM, K_STR, K_ARR, K_OBJ };
static const char *s_kind_names[] = {"null", "false", "true", "number", "string", "array", "object"};

struct mnode {
    int kind;
    double num;
    char *lit;     /* text mode: the literal the generator chose (value = strtod(lit)); else NULL */
    uint8_t *str;  /* K_STR, NUL-terminated copy, no embedded NUL */
    size_t slen;
    size_t n, cap; /* children */
    struct mnode **kid;
    uint8_t **key; /* K_OBJ: NUL-terminated copies */
    size_t *klen;
    struct aws_json_value *lib; /* identity token of the library value this node mirrors (never dereferenced) */
};

static uint8_t *dup_bytes(const void *p, size_t n) {
    uint8_t *d = malloc(n + 1);
    if (n) {
        memcpy(d, p, n);
    }
    d[n] = 0;
    return d;
}

static struct mnode *mn_new(int kind) {
    struct mnode *m = calloc(1, sizeof(*m));
    m->kind = kind;
    return m;
}

static struct mnode *mn_str(const void *p, size_t n) {
    struct mnode *m = mn_new(K_STR);
    m->str = dup_bytes(p, n);
    m->slen = n;
    return m;
}

static struct mnode *mn_num(double d) {
    struct mnode *m = mn_new(K_NUM);
    m->num = d;
    return m;
}

static void mn_free(struct mnode *m) {
    if (!m) {
        return;
    }
    for (size_t i = 0; i < m->n; ++i) {
        mn_free(m->kid[i]);
        if (m->key) {
            free(m->key[i]);
        }
    }
    free(m->kid);
    free(m->key);
    free(m->klen);
    free(m->str);
    free(m->lit);
    free(m);
}

static void mn_add(struct mnode *p, const void *key, size_t klen, struct mnode *kid) {
    if (p->n == p->cap) {
        p->cap = p->cap ? p->cap * 2 : 4;
        p->kid = realloc(p->kid, p->cap * sizeof(*p->kid));
        if (p->kind == K_OBJ) {
            p->key = realloc(p->key, p->cap * sizeof(*p->key));
            p->klen = realloc(p->klen, p->cap * sizeof(*p->klen));
        }
    }
    p->kid[p->n] = kid;
    if (p->kind == K_OBJ) {
        p->key[p->n] = dup_bytes(key, klen);
        p->klen[p->n] = klen;
    }
    ++p->n;
}

static void mn_remove_at(struct mnode *p, size_t i) {
    mn_free(p->kid[i]);
    if (p->kind == K_OBJ) {
        free(p->key[i]);
    }
    for (size_t j = i + 1; j < p->n; ++j) {
        p->kid[j - 1] = p->kid[j];
        if (p->kind == K_OBJ) {
            p->key[j - 1] = p->key[j];
            p->klen[j - 1] = p->klen[j];
        }
    }
    --p->n;
}

static size_t mn_count(const struct mnode *m) {
    size_t c = 1;
    for (size_t i = 0; i < m->n; ++i) {
        c += mn_count(m->kid[i]);
    }
    return c;
}

static size_t mn_depth(const struct mnode *m) {
    size_t d = 0;
    for (size_t i = 0; i < m->n; ++i) {
        size_t k = mn_depth(m->kid[i]);
        d = k > d ? k : d;
    }
    return d + ((m->kind == K_ARR || m->kind == K_OBJ) ? 1 : 0);
}

/* largest number of OBJECT nodes on a root-to-leaf path */
static size_t mn_objdepth(const struct mnode *m) {
    size_t d = 0;
    for (size_t i = 0; i < m->n; ++i) {
        size_t k = mn_objdepth(m->kid[i]);
        d = k > d ? k : d;
    }
    return d + (m->kind == K_OBJ ? 1 : 0);
}

static uint8_t fold(uint8_t c) {
    return (c >= 'A' && c <= 'Z') ? (uint8_t)(c + 32) : c;
}
/* the vendored lookup's documented behaviour: ASCII-case-insensitive key comparison */
static bool key_eq_fold(const uint8_t *a, size_t al, const uint8_t *b, size_t bl) {
    if (al != bl) {
        return false;
    }
    for (size_t i = 0; i < al; ++i) {
        if (fold(a[i]) != fold(b[i])) {
            return false;
        }
    }
    return true;
}
static bool key_eq(const uint8_t *a, size_t al, const uint8_t *b, size_t bl) {
    return al == bl && (al == 0 || !memcmp(a, b, al));
}
/* index of the first member whose key matches case-insensitively, or -1 */
static long mn_find(const struct mnode *o, const uint8_t *key, size_t klen) {
    for (size_t i = 0; i < o->n; ++i) {
        if (key_eq_fold(o->key[i], o->klen[i], key, klen)) {
            return (long)i;
        }
    }
    return -1;
}

/* does any object of the tree hold two members whose keys are equal (exactly / case-insensitively)? */
static bool mn_has_dupkeys(const struct mnode *m, bool folded) {
    if (m->kind == K_OBJ) {
        for (size_t i = 0; i < m->n; ++i) {
            for (size_t j = i + 1; j < m->n; ++j) {
                if (folded ? key_eq_fold(m->key[i], m->klen[i], m->key[j], m->klen[j])
                           : key_eq(m->key[i], m->klen[i], m->key[j], m->klen[j])) {
                    return true;
                }
            }
        }
    }
    for (size_t i = 0; i < m->n; ++i) {
        if (mn_has_dupkeys(m->kid[i], folded)) {
            return true;
        }
    }
    return false;
}

static uint64_t bits_of(double d) {
    uint64_t u;
    memcpy(&u, &d, 8);
    return u;
}
static double from_bits(uint64_t u) {
    double d;
    memcpy(&d, &u, 8);
    return d;
}

static void mn_fp(const struct mnode *m) {
    mon_fp((uint64_t)m->kind + 0x100 * m->n);
    if (m->kind == K_NUM) {
        mon_fp(bits_of(m->num));
    } else if (m->kind == K_STR) {
        uint64_t h = 1469598103934665603ULL;
        for (size_t i = 0; i < m->slen; ++i) {
            h = (h ^ m->str[i]) * 1099511628211ULL;
        }
        mon_fp(h);
    }
    for (size_t i = 0; i < m->n; ++i) {
        if (m->kind == K_OBJ) {
            uint64_t h = 1469598103934665603ULL;
            for (size_t k = 0; k < m->klen[i]; ++k) {
                h = (h ^ m->key[i][k]) * 1099511628211ULL;
            }
            mon_fp(h);
        }
        mn_fp(m->kid[i]);
    }
}

/* ------------------------------------------------------------------ UTF-8 helpers */
/* strict decode of one code point; returns its length or 0 if s does not start a well-formed sequence */
static size_t utf8_decode(const uint8_t *s, size_t n, uint32_t *cp) {
    if (n == 0) {
        return 0;
    }
    uint8_t c = s[0];
    if (c < 0x80) {
        *cp = c;
        return 1;
    }
    size_t len;
    uint32_t v, min;
    if (c >= 0xC2 && c <= 0xDF) {
        len = 2, v = c & 0x1F, min = 0x80;
    } else if ((c & 0xF0) == 0xE0) {
        len = 3, v = c & 0x0F, min = 0x800;
    } else if (c >= 0xF0 && c <= 0xF4) {
        len = 4, v = c & 0x07, min = 0x10000;
    } else {
        return 0;
    }
    if (n < len) {
        return 0;
    }
    for (size_t i = 1; i < len; ++i) {
        if ((s[i] & 0xC0) != 0x80) {
            return 0;
        }
        v = (v << 6) | (s[i] & 0x3F);
    }
    if (v < min || v > 0x10FFFF || (v >= 0xD800 && v <= 0xDFFF)) {
        return 0;
    }
    *cp = v;
    return len;
}

static size_t utf8_encode(uint32_t cp, uint8_t *out) {
    if (cp < 0x80) {
        out[0] = (uint8_t)cp;
        return 1;
    }
    if (cp < 0x800) {
        out[0] = (uint8_t)(0xC0 | (cp >> 6));
        out[1] = (uint8_t)(0x80 | (cp & 0x3F));
        return 2;
    }
    if (cp < 0x10000) {
        out[0] = (uint8_t)(0xE0 | (cp >> 12));
        out[1] = (uint8_t)(0x80 | ((cp >> 6) & 0x3F));
        out[2] = (uint8_t)(0x80 | (cp & 0x3F));
        return 3;
    }
    out[0] = (uint8_t)(0xF0 | (cp >> 18));
    out[1] = (uint8_t)(0x80 | ((cp >> 12) & 0x3F));
    out[2] = (uint8_t)(0x80 | ((cp >> 6) & 0x3F));
    out[3] = (uint8_t)(0x80 | (cp & 0x3F));
    return 4;
}

static bool utf8_valid(const uint8_t *s, size_t n) {
    size_t i = 0;
    while (i < n) {
        uint32_t cp;
        size_t l = utf8_decode(s + i, n - i, &cp);
        if (!l) {
            return false;
        }
        i += l;
    }
    return true;
}

/* ------------------------------------------------------------------ number tolerance (the property's rule) */
static bool exact15(double d) {
    char b[64];
    snprintf(b, sizeof(b), "%.15g", d);
    return strtod(b, NULL) == d;
}

/*
 * 0: got is acceptable and numerically equal; 1: acceptable, differs within tolerance; -1: refuted.
 * "unchanged when it has at most 15 significant decimal digits": strtod("%.15g" of want) == want => got == want
 * (numeric equality, so -0.0 and 0.0 are the same number).  Otherwise "within one part in 2^52": the bound is taken
 * relative to the larger magnitude of the two, which is the criterion the printer documents ("close enough" =
 * |a-b| <= max(|a|,|b|) * DBL_EPSILON).  Values for which only this symmetric reading holds (|got-want| exceeds
 * |want| * 2^-52 by less than one part in 2^52 of the bound, e.g. 1-2^-52 printed as "1") are counted, not alarmed.
 */
static uint64_t s_symmetric_only, s_inexact;
static int num_check(double want, double got) {
    if (got == want) {
        return 0;
    }
    if (isnan(got) || isinf(got)) {
        return -1;
    }
    if (exact15(want)) {
        return -1;
    }
    double diff = fabs(got - want);
    double big = fabs(got) > fabs(want) ? fabs(got) : fabs(want);
    if (diff <= big * 0x1p-52) {
        ++s_inexact;
        if (!(diff <= fabs(want) * 0x1p-52)) {
            ++s_symmetric_only;
        }
        return 1;
    }
    return -1;
}

/* ------------------------------------------------------------------ generators */
static double pow2(int k) {
    return ldexp(1.0, k);
}

static double decimal_digits(struct mon_rng *r, int ndig, char *lit_out) {
    /* d.ddd...e[+-]xx with exactly ndig significant digits (first and last non-zero) */
    char b[64];
    size_t o = 0;
    if (mon_chance(r, 1, 2)) {
        b[o++] = '-';
    }
    for (int i = 0; i < ndig; ++i) {
        int lo = (i == 0 || i == ndig - 1) ? 1 : 0;
        b[o++] = (char)('0' + lo + (int)mon_below(r, (uint64_t)(10 - lo)));
        if (i == 0 && ndig > 1) {
            b[o++] = '.';
        }
    }
    int e;
    switch (mon_below(r, 4)) {
        case 0:
            e = (int)mon_range(r, 0, 20) - 5;
            break;
        case 1:
            e = (int)mon_range(r, 0, 60) - 30;
            break;
        case 2:
            e = (int)mon_range(r, 0, 600) - 300;
            break;
        default:
            e = (int)mon_range(r, 0, 30);
            break;
    }
    o += (size_t)snprintf(b + o, sizeof(b) - o, "e%d", e);
    b[o] = 0;
    if (lit_out) {
        strcpy(lit_out, b);
    }
    return strtod(b, NULL);
}

static double gen_number(struct mon_rng *r) {
    static const double specials[] = {0.0, -0.0, 1.0, -1.0, 0.5, 0.1, 0.2, 0.3, 1.0 / 3.0, 2.0 / 3.0, DBL_MAX, -DBL_MAX,
                                      DBL_MIN, -DBL_MIN, 4.9406564584124654e-324, -4.9406564584124654e-324, DBL_EPSILON,
                                      1e15, 1e16, 1e17, 1e21, 1e22, 1e23, 1e-5, 1e-6, 1e-7, 123456789012345.0,
                                      1234567890123456.0, 12345678901234567.0, 9007199254740991.0, 9007199254740992.0,
                                      9007199254740993.0, 9007199254740994.0, 0.1 + 0.2, 3.141592653589793,
                                      2.718281828459045, 1e308, 1e-308, 2.2250738585072009e-308, 1.7976931348623155e308,
                                      4294967295.0, 4294967296.0, 4294967297.0, 0.30000000000000004, 100.0, 1e2, 5e-324};
    double d;
    switch (mon_below(r, 12)) {
        case 0:
            return (double)((long)mon_below(r, 2001) - 1000);
        case 1: {
            int k = (int)mon_below(r, 64);
            d = pow2(k) + (double)((int)mon_below(r, 3) - 1);
            return mon_chance(r, 1, 2) ? -d : d;
        }
        case 2: {
            /* random finite bit pattern */
            uint64_t u = mon_rand(r);
            if (((u >> 52) & 0x7FF) == 0x7FF) {
                u &= ~((uint64_t)1 << 62);
            }
            return from_bits(u);
        }
        case 3:
            return decimal_digits(r, (int)mon_range(r, 1, 15), NULL);
        case 4:
            return decimal_digits(r, (int)mon_range(r, 16, 17), NULL);
        case 5: {
            /* subnormals */
            uint64_t u = mon_rand(r) & 0x000FFFFFFFFFFFFFULL;
            if (mon_chance(r, 1, 4)) {
                u = 1 + mon_below(r, 4);
            }
            if (mon_chance(r, 1, 2)) {
                u |= (uint64_t)1 << 63;
            }
            return from_bits(u);
        }
        case 6:
            return specials[mon_below(r, sizeof(specials) / sizeof(specials[0]))];
        case 7: {
            /* where the printer switches between "%d" and "%1.15g" */
            double base = mon_chance(r, 1, 2) ? (double)INT_MAX : (double)INT_MIN;
            static const double offs[] = {0, 1, -1, 2, -2, 0.5, -0.5, 0.25, 1.5, -1.5, 1e-6, -1e-6};
            return base + offs[mon_below(r, 12)];
        }
        case 8: {
            /* top of a binade: 2^k - {1,2,3} ulp, where "%.15g" may round up across the power of two */
            int k = (int)mon_range(r, 0, 120) - 40;
            uint64_t u = bits_of(pow2(k)) - (1 + mon_below(r, 3));
            d = from_bits(u);
            return mon_chance(r, 1, 4) ? -d : d;
        }
        case 9:
            d = (double)((long)mon_below(r, 2000001) - 1000000) / 1000.0;
            return d;
        case 10: {
            /* integers beyond 2^31 and 2^53 */
            uint64_t v = mon_rand(r) >> mon_below(r, 33);
            d = (double)v;
            return mon_chance(r, 1, 2) ? -d : d;
        }
        default:
            d = (double)((long)mon_below(r, 1 << 20)) / pow2((int)mon_below(r, 30));
            return mon_chance(r, 1, 2) ? -d : d;
    }
}

/* number literal for the harness's own JSON text: valid RFC 8259, <= 40 characters, finite */
static void gen_literal(struct mon_rng *r, char *lit, double *val) {
    char b[128];
    b[0] = 0;
    switch (mon_below(r, 10)) {
        case 0:
            snprintf(b, sizeof(b), "%ld", (long)mon_below(r, 2001) - 1000);
            break;
        case 1: {
            int k = (int)mon_below(r, 64);
            uint64_t v = ((uint64_t)1 << k) + mon_below(r, 3) - 1;
            snprintf(b, sizeof(b), "%s%llu", mon_chance(r, 1, 2) ? "-" : "", (unsigned long long)v);
            break;
        }
        case 2:
            snprintf(b, sizeof(b), "%.17g", gen_number(r));
            break;
        case 3:
            snprintf(b, sizeof(b), mon_chance(r, 1, 2) ? "%.15g" : "%.16g", gen_number(r));
            break;
        case 4:
            decimal_digits(r, (int)mon_range(r, 1, 15), b);
            break;
        case 5:
            decimal_digits(r, (int)mon_range(r, 16, 17), b);
            break;
        case 6: {
            double d = (double)((long)mon_below(r, 2000000001) - 1000000000) / pow2((int)mon_below(r, 12));
            snprintf(b, sizeof(b), "%.*f", (int)mon_below(r, 13), d);
            break;
        }
        case 7: {
            static const char *forms[] = {"0",      "-0",     "0.0",    "-0.0",     "0e0",     "0E+0",      "1E2",
                                          "1e+2",   "1e-2",   "12E3",   "1.5E+007", "100e-2",  "0.000",     "1.0",
                                          "1.50",   "-1.0e0", "2e00",   "25e-1",    "1e15",    "1E+15",     "1e16",
                                          "123e18", "5e-324", "4.9e-324", "2147483647", "2147483648", "-2147483648",
                                          "-2147483649", "2147483647.0", "2147483647.5", "2.147483647e9", "9007199254740993",
                                          "0.1e1",  "10e-1",  "1e+0",   "1.7976931348623157E308", "2.2250738585072014e-308"};
            snprintf(b, sizeof(b), "%s", forms[mon_below(r, sizeof(forms) / sizeof(forms[0]))]);
            break;
        }
        case 8: {
            /* integer mantissa with explicit exponent */
            snprintf(b, sizeof(b), "%s%llu%s%s%d", mon_chance(r, 1, 2) ? "-" : "", (unsigned long long)mon_below(r, 100000),
                     mon_chance(r, 1, 2) ? "e" : "E", mon_chance(r, 1, 2) ? "+" : "-", (int)mon_below(r, 25));
            break;
        }
        default:
            snprintf(b, sizeof(b), "%.0f", gen_number(r));
            break;
    }
    /* exponent spelling variants the printer never emits */
    char *e = strchr(b, 'e');
    if (e && mon_chance(r, 1, 3)) {
        *e = 'E';
    }
    if (e && e[1] == '+' && mon_chance(r, 1, 3)) {
        memmove(e + 1, e + 2, strlen(e + 2) + 1);
    }
    double v = strtod(b, NULL);
    if (strlen(b) > 40 || !strlen(b) || isnan(v) || isinf(v) || strstr(b, "n")) {
        strcpy(b, "7");
        v = 7.0;
    }
    strcpy(lit, b);
    *val = v;
}

/* string of nelem elements: every byte value 1..255 can occur, including ill-formed UTF-8 */
static void gen_bytes(struct mon_rng *r, struct sbuf *out, size_t nelem) {
    for (size_t i = 0; i < nelem; ++i) {
        uint8_t tmp[4];
        switch (mon_below(r, 12)) {
            case 0:
            case 1:
            case 2:
                sb_c(out, (char)mon_range(r, 0x20, 0x7E));
                break;
            case 3:
                sb_c(out, (char)mon_range(r, 1, 31));
                break;
            case 4: {
                static const char sp[] = {'"', '\\', '/', 0x7f, '\b', '\f', '\n', '\r', '\t', ' ', 'u', '\''};
                sb_c(out, sp[mon_below(r, sizeof(sp))]);
                break;
            }
            case 5:
                sb_put(out, tmp, utf8_encode((uint32_t)mon_range(r, 0x80, 0x7FF), tmp));
                break;
            case 6: {
                uint32_t cp = (uint32_t)mon_range(r, 0x800, 0xFFFF);
                if (cp >= 0xD800 && cp <= 0xDFFF) {
                    cp = 0x20AC;
                }
                sb_put(out, tmp, utf8_encode(cp, tmp));
                break;
            }
            case 7:
                sb_put(out, tmp, utf8_encode((uint32_t)mon_range(r, 0x10000, 0x10FFFF), tmp));
                break;
            case 8:
                sb_c(out, (char)mon_range(r, 0x80, 0xBF)); /* lone continuation byte */
                break;
            case 9: {
                static const uint8_t bad[] = {0xC0, 0xC1, 0xF5, 0xFF, 0xFE, 0xE2, 0xF0, 0xC3, 0xED};
                sb_c(out, (char)bad[mon_below(r, sizeof(bad))]);
                break;
            }
            case 10:
                sb_c(out, (char)mon_range(r, 1, 255));
                break;
            default:
                sb_c(out, (char)('a' + mon_below(r, 26)));
                break;
        }
    }
}

static size_t gen_strlen(struct mon_rng *r) {
    switch (mon_below(r, 16)) {
        case 0:
            return 0;
        case 1:
            return (size_t)mon_range(r, 40, 300); /* longer than the printer's initial 256-byte buffer */
        case 2:
            return mon_chance(r, 1, 8) ? (size_t)mon_range(r, 300, 3000) : 1;
        default:
            return (size_t)mon_below(r, 12);
    }
}

/* keys: few distinct spellings, many case variants, so that lookups and duplicate tests collide */
static void gen_key(struct mon_rng *r, struct sbuf *out) {
    static const char *pool[] = {"a", "b", "ab", "key", "id", "x1", "name", "", "\xC3\xA9", "\xC3\x89", "K[", "K{", "@",
                                 "`", "a\n", "q\"", "s\\", "Z", "zz", "k^", "k~", "a/b", "\x01", "\x7f", "value"};
    if (mon_chance(r, 3, 5)) {
        const char *w = pool[mon_below(r, sizeof(pool) / sizeof(pool[0]))];
        size_t n = strlen(w);
        for (size_t i = 0; i < n; ++i) {
            char c = w[i];
            if (mon_chance(r, 1, 3)) {
                if (c >= 'a' && c <= 'z') {
                    c = (char)(c - 32);
                } else if (c >= 'A' && c <= 'Z') {
                    c = (char)(c + 32);
                }
            }
            sb_c(out, c);
        }
        if (mon_chance(r, 1, 6)) {
            sb_c(out, (char)('0' + mon_below(r, 10)));
        }
    } else {
        gen_bytes(r, out, 1 + (size_t)mon_below(r, 6));
    }
}

/* a spelling of key that differs only in ASCII letter case (returns false if the key has no letter) */
static bool case_variant(struct mon_rng *r, const uint8_t *key, size_t klen, struct sbuf *out) {
    bool changed = false;
    for (size_t i = 0; i < klen; ++i) {
        uint8_t c = key[i];
        bool letter = (c >= 'a' && c <= 'z') || (c >= 'A' && c <= 'Z');
        if (letter && (!changed || mon_chance(r, 1, 2))) {
            c ^= 0x20;
            changed = true;
        }
        sb_c(out, (char)c);
    }
    if (klen == 0) {
        sb_put(out, "", 0);
    }
    return changed;
}

/* ------------------------------------------------------------------ the harness's own JSON writer */
struct wstats {
    unsigned u_esc, surrogate, solidus, expo, ws;
};

static void wr_hex4(struct sbuf *o, uint32_t v, struct mon_rng *r) {
    char b[8];
    snprintf(b, sizeof(b), (r && mon_chance(r, 1, 2)) ? "\\u%04X" : "\\u%04x", v);
    sb_s(o, b);
}

static const char *short_escape(uint8_t c) {
    switch (c) {
        case '"':
            return "\\\"";
        case '\\':
            return "\\\\";
        case '/':
            return "\\/";
        case '\b':
            return "\\b";
        case '\f':
            return "\\f";
        case '\n':
            return "\\n";
        case '\r':
            return "\\r";
        case '\t':
            return "\\t";
        default:
            return NULL;
    }
}

/* r == NULL: canonical form (escape only what must be escaped); else a random valid representation per character */
static void wr_string(struct sbuf *o, const uint8_t *s, size_t n, struct mon_rng *r, struct wstats *st) {
    sb_c(o, '"');
    size_t i = 0;
    while (i < n) {
        uint32_t cp = 0;
        size_t l = utf8_decode(s + i, n - i, &cp);
        if (l == 0) {
            sb_c(o, (char)s[i++]); /* ill-formed byte: only the raw form exists */
            continue;
        }
        if (cp < 0x80) {
            uint8_t c = (uint8_t)cp;
            bool must = c < 0x20 || c == '"' || c == '\\';
            const char *sh = short_escape(c);
            int choice; /* 0 raw, 1 short, 2 \u00XX */
            if (!r) {
                choice = !must ? 0 : (c < 0x20 ? 2 : 1);
            } else {
                unsigned pick = (unsigned)mon_below(r, 8);
                if (!must && pick < 5) {
                    choice = 0;
                } else if (sh && pick < 7) {
                    choice = 1;
                } else if (must || pick == 7) {
                    choice = 2;
                } else {
                    choice = 0;
                }
            }
            if (choice == 0) {
                sb_c(o, (char)c);
            } else if (choice == 1) {
                sb_s(o, sh);
                if (c == '/' && st) {
                    ++st->solidus;
                }
            } else {
                wr_hex4(o, c, r);
                if (st) {
                    ++st->u_esc;
                }
            }
        } else if (!r || mon_chance(r, 3, 5)) {
            sb_put(o, s + i, l);
        } else if (cp < 0x10000) {
            wr_hex4(o, cp, r);
            if (st) {
                ++st->u_esc;
            }
        } else {
            uint32_t v = cp - 0x10000;
            wr_hex4(o, 0xD800 + (v >> 10), r);
            wr_hex4(o, 0xDC00 + (v & 0x3FF), r);
            if (st) {
                ++st->surrogate;
            }
        }
        i += l;
    }
    sb_c(o, '"');
}

static void wr_ws(struct sbuf *o, struct mon_rng *r, struct wstats *st) {
    if (!r || !mon_chance(r, 1, 3)) {
        return;
    }
    size_t k = 1 + (size_t)mon_below(r, 3);
    for (size_t i = 0; i < k; ++i) {
        sb_c(o, " \t\n\r "[mon_below(r, 5)]);
    }
    if (st) {
        ++st->ws;
    }
}

static void wr_value(struct sbuf *o, const struct mnode *m, struct mon_rng *r, struct wstats *st) {
    char b[64];
    switch (m->kind) {
        case K_NULL:
            sb_s(o, "null");
            break;
        case K_FALSE:
            sb_s(o, "false");
            break;
        case K_TRUE:
            sb_s(o, "true");
            break;
        case K_NUM:
            if (r && m->lit) {
                sb_s(o, m->lit);
                if (st && (strchr(m->lit, 'e') || strchr(m->lit, 'E'))) {
                    ++st->expo;
                }
            } else {
                snprintf(b, sizeof(b), "%.17g", m->num);
                sb_s(o, b);
            }
            break;
        case K_STR:
            wr_string(o, m->str, m->slen, r, st);
            break;
        case K_ARR:
            sb_c(o, '[');
            wr_ws(o, r, st);
            for (size_t i = 0; i < m->n; ++i) {
                if (i) {
                    sb_c(o, ',');
                    wr_ws(o, r, st);
                }
                wr_value(o, m->kid[i], r, st);
                wr_ws(o, r, st);
            }
            sb_c(o, ']');
            break;
        default:
            sb_c(o, '{');
            wr_ws(o, r, st);
            for (size_t i = 0; i < m->n; ++i) {
                if (i) {
                    sb_c(o, ',');
                    wr_ws(o, r, st);
                }
                wr_string(o, m->key[i], m->klen[i], r, st);
                wr_ws(o, r, st);
                sb_c(o, ':');
                wr_ws(o, r, st);
                wr_value(o, m->kid[i], r, st);
                wr_ws(o, r, st);
            }
            sb_c(o, '}');
            break;
    }
}

/* ------------------------------------------------------------------ independent strict RFC 8259 reader */
struct rd {
    const uint8_t *p;
    size_t n, i;
    const char *err;
    unsigned lit_int, lit_le15, lit_17, lit_expo, short_esc, u_esc, high_raw;
};

static void rd_ws(struct rd *p) {
    while (p->i < p->n && (p->p[p->i] == ' ' || p->p[p->i] == '\t' || p->p[p->i] == '\n' || p->p[p->i] == '\r')) {
        ++p->i;
    }
}

static int hexval(uint8_t c) {
    if (c >= '0' && c <= '9') {
        return c - '0';
    }
    if (c >= 'a' && c <= 'f') {
        return c - 'a' + 10;
    }
    if (c >= 'A' && c <= 'F') {
        return c - 'A' + 10;
    }
    return -1;
}

static bool rd_hex4(struct rd *p, uint32_t *out) {
    if (p->i + 4 > p->n) {
        return false;
    }
    uint32_t v = 0;
    for (int k = 0; k < 4; ++k) {
        int h = hexval(p->p[p->i + (size_t)k]);
        if (h < 0) {
            return false;
        }
        v = v * 16 + (uint32_t)h;
    }
    p->i += 4;
    *out = v;
    return true;
}

/* reads a string literal into out (decoded bytes); false + p->err on a grammar violation */
static bool rd_string(struct rd *p, struct sbuf *out) {
    if (p->i >= p->n || p->p[p->i] != '"') {
        p->err = "expected '\"'";
        return false;
    }
    ++p->i;
    sb_put(out, "", 0);
    for (;;) {
        if (p->i >= p->n) {
            p->err = "unterminated string";
            return false;
        }
        uint8_t c = p->p[p->i++];
        if (c == '"') {
            return true;
        }
        if (c < 0x20) {
            p->err = "raw control character inside a string";
            return false;
        }
        if (c != '\\') {
            if (c >= 0x80) {
                ++p->high_raw;
            }
            sb_c(out, (char)c);
            continue;
        }
        if (p->i >= p->n) {
            p->err = "dangling backslash";
            return false;
        }
        c = p->p[p->i++];
        switch (c) {
            case '"':
            case '\\':
            case '/':
                sb_c(out, (char)c);
                ++p->short_esc;
                break;
            case 'b':
                sb_c(out, '\b');
                ++p->short_esc;
                break;
            case 'f':
                sb_c(out, '\f');
                ++p->short_esc;
                break;
            case 'n':
                sb_c(out, '\n');
                ++p->short_esc;
                break;
            case 'r':
                sb_c(out, '\r');
                ++p->short_esc;
                break;
            case 't':
                sb_c(out, '\t');
                ++p->short_esc;
                break;
            case 'u': {
                uint32_t v, lo;
                if (!rd_hex4(p, &v)) {
                    p->err = "bad \\u escape";
                    return false;
                }
                ++p->u_esc;
                if (v >= 0xDC00 && v <= 0xDFFF) {
                    p->err = "lone low surrogate";
                    return false;
                }
                if (v >= 0xD800 && v <= 0xDBFF) {
                    if (p->i + 2 > p->n || p->p[p->i] != '\\' || p->p[p->i + 1] != 'u') {
                        p->err = "lone high surrogate";
                        return false;
                    }
                    p->i += 2;
                    if (!rd_hex4(p, &lo) || lo < 0xDC00 || lo > 0xDFFF) {
                        p->err = "bad low surrogate";
                        return false;
                    }
                    v = 0x10000 + ((v - 0xD800) << 10) + (lo - 0xDC00);
                }
                if (v == 0) {
                    p->err = "\\u0000 (embedded NUL cannot be represented)";
                    return false;
                }
                uint8_t tmp[4];
                sb_put(out, tmp, utf8_encode(v, tmp));
                break;
            }
            default:
                p->err = "unknown escape";
                return false;
        }
    }
}

static bool rd_number(struct rd *p, double *out) {
    size_t s = p->i;
    size_t digits_start;
    if (p->i < p->n && p->p[p->i] == '-') {
        ++p->i;
    }
    digits_start = p->i;
    if (p->i >= p->n || p->p[p->i] < '0' || p->p[p->i] > '9') {
        p->err = "number: digit expected";
        return false;
    }
    if (p->p[p->i] == '0') {
        ++p->i;
    } else {
        while (p->i < p->n && p->p[p->i] >= '0' && p->p[p->i] <= '9') {
            ++p->i;
        }
    }
    bool frac = false, expo = false;
    if (p->i < p->n && p->p[p->i] == '.') {
        frac = true;
        ++p->i;
        if (p->i >= p->n || p->p[p->i] < '0' || p->p[p->i] > '9') {
            p->err = "number: digit expected after '.'";
            return false;
        }
        while (p->i < p->n && p->p[p->i] >= '0' && p->p[p->i] <= '9') {
            ++p->i;
        }
    }
    size_t mant_end = p->i;
    if (p->i < p->n && (p->p[p->i] == 'e' || p->p[p->i] == 'E')) {
        expo = true;
        ++p->i;
        if (p->i < p->n && (p->p[p->i] == '+' || p->p[p->i] == '-')) {
            ++p->i;
        }
        if (p->i >= p->n || p->p[p->i] < '0' || p->p[p->i] > '9') {
            p->err = "number: digit expected in exponent";
            return false;
        }
        while (p->i < p->n && p->p[p->i] >= '0' && p->p[p->i] <= '9') {
            ++p->i;
        }
    }
    size_t len = p->i - s;
    if (len > 100) {
        p->err = "number literal longer than 100 characters";
        return false;
    }
    char b[104];
    memcpy(b, p->p + s, len);
    b[len] = 0;
    *out = strtod(b, NULL);
    /* significant digits of the literal (statistics: which of the printer's formats produced it) */
    unsigned sig = 0, trailing = 0;
    bool lead = true;
    for (size_t k = digits_start; k < mant_end; ++k) {
        uint8_t c = p->p[k];
        if (c == '.') {
            continue;
        }
        if (lead && c == '0') {
            continue;
        }
        lead = false;
        ++sig;
        trailing = c == '0' ? trailing + 1 : 0;
    }
    sig -= trailing;
    if (expo) {
        ++p->lit_expo;
    }
    if (!frac && !expo) {
        ++p->lit_int;
    } else if (sig <= 15) {
        ++p->lit_le15;
    }
    if (sig >= 16) {
        ++p->lit_17;
    }
    return true;
}

static struct mnode *rd_value(struct rd *p, int depth) {
    if (depth > 1100) {
        p->err = "nesting deeper than 1100";
        return NULL;
    }
    if (p->i >= p->n) {
        p->err = "value expected, end of text";
        return NULL;
    }
    uint8_t c = p->p[p->i];
    if (c == 'n' && p->n - p->i >= 4 && !memcmp(p->p + p->i, "null", 4)) {
        p->i += 4;
        return mn_new(K_NULL);
    }
    if (c == 't' && p->n - p->i >= 4 && !memcmp(p->p + p->i, "true", 4)) {
        p->i += 4;
        return mn_new(K_TRUE);
    }
    if (c == 'f' && p->n - p->i >= 5 && !memcmp(p->p + p->i, "false", 5)) {
        p->i += 5;
        return mn_new(K_FALSE);
    }
    if (c == '"') {
        struct sbuf s = {0};
        if (!rd_string(p, &s)) {
            sb_free(&s);
            return NULL;
        }
        struct mnode *m = mn_str(s.p, s.n);
        sb_free(&s);
        return m;
    }
    if (c == '-' || (c >= '0' && c <= '9')) {
        double d;
        if (!rd_number(p, &d)) {
            return NULL;
        }
        return mn_num(d);
    }
    if (c == '[' || c == '{') {
        bool obj = c == '{';
        uint8_t close = obj ? '}' : ']';
        struct mnode *m = mn_new(obj ? K_OBJ : K_ARR);
        ++p->i;
        rd_ws(p);
        if (p->i < p->n && p->p[p->i] == close) {
            ++p->i;
            return m;
        }
        for (;;) {
            struct sbuf k = {0};
            if (obj) {
                rd_ws(p);
                if (!rd_string(p, &k)) {
                    sb_free(&k);
                    mn_free(m);
                    return NULL;
                }
                rd_ws(p);
                if (p->i >= p->n || p->p[p->i] != ':') {
                    p->err = "':' expected";
                    sb_free(&k);
                    mn_free(m);
                    return NULL;
                }
                ++p->i;
            }
            rd_ws(p);
            struct mnode *kid = rd_value(p, depth + 1);
            if (!kid) {
                sb_free(&k);
                mn_free(m);
                return NULL;
            }
            mn_add(m, k.p ? k.p : "", k.n, kid);
            sb_free(&k);
            rd_ws(p);
            if (p->i < p->n && p->p[p->i] == ',') {
                ++p->i;
                continue;
            }
            if (p->i < p->n && p->p[p->i] == close) {
                ++p->i;
                return m;
            }
            p->err = obj ? "',' or '}' expected" : "',' or ']' expected";
            mn_free(m);
            return NULL;
        }
    }
    p->err = "unexpected character where a value should start";
    return NULL;
}

/* whole text must be exactly one value surrounded by optional whitespace */
static struct mnode *strict_read(const void *text, size_t n, struct rd *st) {
    memset(st, 0, sizeof(*st));
    st->p = text;
    st->n = n;
    rd_ws(st);
    struct mnode *m = rd_value(st, 0);
    if (!m) {
        return NULL;
    }
    rd_ws(st);
    if (st->i != st->n) {
        st->err = "trailing characters after the value";
        mn_free(m);
        return NULL;
    }
    return m;
}

/* ------------------------------------------------------------------ model comparison */
enum { CMP_EXACT, CMP_TOL };

static void path_push(char *path, size_t cap, const char *fmt, ...) {
    size_t l = strlen(path);
    if (l + 24 >= cap) {
        return;
    }
    va_list ap;
    va_start(ap, fmt);
    vsnprintf(path + l, cap - l, fmt, ap);
    va_end(ap);
}

static void tree_violation(const char *stage, const char *what, const char *path, const char *fmt, ...) {
    char key[96], detail[1500];
    snprintf(key, sizeof(key), "C11:tree:%s:%s", stage, what);
    va_list ap;
    va_start(ap, fmt);
    vsnprintf(detail, sizeof(detail), fmt, ap);
    va_end(ap);
    mon_violation(key, "at $%s: %s", path, detail);
}

/* want = generating tree, got = tree read back. Reports the first difference; returns equality. */
static bool model_cmp_at(const struct mnode *want, const struct mnode *got, int mode, const char *stage, char *path, size_t cap) {
    if (want->kind != got->kind) {
        tree_violation(stage, "kind", path, "expected %s, found %s", s_kind_names[want->kind], s_kind_names[got->kind]);
        return false;
    }
    switch (want->kind) {
        case K_NUM: {
            int rc = mode == CMP_EXACT ? (got->num == want->num ? 0 : -1) : num_check(want->num, got->num);
            if (rc == 1) {
                mon_flag(F_NUM_INEXACT_WITHIN_TOL);
            }
            if (rc < 0) {
                tree_violation(stage, "number", path,
                               "expected %.17g (bits %016llx, %s), found %.17g (bits %016llx); |diff|/|expected| = %.3g",
                               want->num, (unsigned long long)bits_of(want->num),
                               mode == CMP_EXACT ? "exact"
                                                 : (exact15(want->num) ? "<=15 significant digits: must be unchanged"
                                                                       : "tolerance 2^-52 relative"),
                               got->num, (unsigned long long)bits_of(got->num),
                               want->num != 0 ? fabs((got->num - want->num) / want->num) : fabs(got->num));
                return false;
            }
            return true;
        }
        case K_STR:
            if (!key_eq(want->str, want->slen, got->str, got->slen)) {
                tree_violation(stage, "string", path, "expected %zu bytes %s, found %zu bytes %s", want->slen,
                               mon_hex(want->str, want->slen, 80), got->slen, mon_hex(got->str, got->slen, 80));
                return false;
            }
            return true;
        case K_ARR:
        case K_OBJ:
            if (want->n != got->n) {
                tree_violation(stage, "length", path, "%s has %zu members, expected %zu", s_kind_names[want->kind], got->n,
                               want->n);
                return false;
            }
            for (size_t i = 0; i < want->n; ++i) {
                if (want->kind == K_OBJ && !key_eq(want->key[i], want->klen[i], got->key[i], got->klen[i])) {
                    tree_violation(stage, "key", path, "member %zu: expected key %s, found key %s", i,
                                   mon_hex(want->key[i], want->klen[i], 60), mon_hex(got->key[i], got->klen[i], 60));
                    return false;
                }
                size_t l = strlen(path);
                if (want->kind == K_OBJ) {
                    path_push(path, cap, ".#%zu", i);
                } else {
                    path_push(path, cap, "[%zu]", i);
                }
                bool ok = model_cmp_at(want->kid[i], got->kid[i], mode, stage, path, cap);
                path[l] = 0;
                if (!ok) {
                    return false;
                }
            }
            return true;
        default:
            return true;
    }
}

static bool model_cmp(const struct mnode *want, const struct mnode *got, int mode, const char *stage) {
    char path[200];
    path[0] = 0;
    return model_cmp_at(want, got, mode, stage, path, sizeof(path));
}

/* ------------------------------------------------------------------ reading a library tree through the public API */
struct collect {
    size_t n, cap;
    const struct aws_json_value **v;
    uint8_t **key;
    size_t *klen;
    bool want_keys;
    bool idx_bad;
    size_t stop_after; /* SIZE_MAX: never */
    bool fail_at_stop;
    size_t calls;
};

static void collect_free(struct collect *c) {
    if (c->key) {
        for (size_t i = 0; i < c->n; ++i) {
            free(c->key[i]);
        }
    }
    free(c->key);
    free(c->klen);
    free(c->v);
    memset(c, 0, sizeof(*c));
}

static void collect_push(struct collect *c, const struct aws_json_value *v, const struct aws_byte_cursor *key) {
    if (c->n == c->cap) {
        c->cap = c->cap ? c->cap * 2 : 8;
        c->v = realloc(c->v, c->cap * sizeof(*c->v));
        if (c->want_keys) {
            c->key = realloc(c->key, c->cap * sizeof(*c->key));
            c->klen = realloc(c->klen, c->cap * sizeof(*c->klen));
        }
    }
    c->v[c->n] = v;
    if (c->want_keys) {
        c->key[c->n] = dup_bytes(key->ptr, key->len);
        c->klen[c->n] = key->len;
    }
    ++c->n;
}

static int s_on_member(const struct aws_byte_cursor *key, const struct aws_json_value *value, bool *cont, void *ud) {
    struct collect *c = ud;
    ++c->calls;
    if (!*cont) {
        c->idx_bad = true; /* documented default of out_should_continue is true */
    }
    collect_push(c, value, key);
    if (c->n - 1 == c->stop_after) {
        if (c->fail_at_stop) {
            return AWS_OP_ERR;
        }
        *cont = false;
    }
    return AWS_OP_SUCCESS;
}

static int s_on_value(size_t idx, const struct aws_json_value *value, bool *cont, void *ud) {
    struct collect *c = ud;
    ++c->calls;
    if (idx != c->n || !*cont) {
        c->idx_bad = true;
    }
    collect_push(c, value, NULL);
    if (c->n - 1 == c->stop_after) {
        if (c->fail_at_stop) {
            return AWS_OP_ERR;
        }
        *cont = false;
    }
    return AWS_OP_SUCCESS;
}

static bool collect_members(const struct aws_json_value *v, bool object, struct collect *c) {
    memset(c, 0, sizeof(*c));
    c->want_keys = object;
    c->stop_after = SIZE_MAX;
    int rc = object ? aws_json_const_iterate_object(v, s_on_member, c) : aws_json_const_iterate_array(v, s_on_value, c);
    if (rc != AWS_OP_SUCCESS) {
        mon_violation("C11:iterate:failed", "const_iterate_%s over a value of that type returned %d", object ? "object" : "array", rc);
        return false;
    }
    if (c->idx_bad) {
        mon_violation("C11:iterate:callback-arguments", "const_iterate_%s: index argument not 0,1,2,... or out_should_continue not preset to true",
                      object ? "object" : "array");
    }
    return true;
}

/* reads v into a fresh model tree; every structural inconsistency between the access paths is a violation */
static struct mnode *extract(const struct aws_json_value *v) {
    if (!v) {
        mon_violation("C11:extract:null-member", "a container handed out a NULL member");
        return mn_new(K_NULL);
    }
    bool is_s = aws_json_value_is_string(v), is_n = aws_json_value_is_number(v), is_a = aws_json_value_is_array(v),
         is_b = aws_json_value_is_boolean(v), is_z = aws_json_value_is_null(v), is_o = aws_json_value_is_object(v);
    int ntrue = is_s + is_n + is_a + is_b + is_z + is_o;
    if (ntrue != 1) {
        mon_violation("C11:type-predicates", "value answers string=%d number=%d array=%d boolean=%d null=%d object=%d", is_s, is_n,
                      is_a, is_b, is_z, is_o);
        return mn_new(K_NULL);
    }
    struct mnode *m;
    struct aws_byte_cursor cur = {0};
    double d = 0;
    bool b = false;
    /* typed getters succeed exactly for their own type */
    int rs = aws_json_value_get_string(v, &cur), rn = aws_json_value_get_number(v, &d), rb = aws_json_value_get_boolean(v, &b);
    if ((rs == AWS_OP_SUCCESS) != is_s || (rn == AWS_OP_SUCCESS) != is_n || (rb == AWS_OP_SUCCESS) != is_b) {
        mon_violation("C11:getter-wrong-type", "getters string=%d number=%d boolean=%d disagree with predicates string=%d number=%d boolean=%d",
                      rs, rn, rb, is_s, is_n, is_b);
    }
    if (is_z) {
        m = mn_new(K_NULL);
    } else if (is_b) {
        m = mn_new(b ? K_TRUE : K_FALSE);
    } else if (is_n) {
        m = mn_num(d);
    } else if (is_s) {
        if (rs != AWS_OP_SUCCESS || (cur.len && !cur.ptr)) {
            m = mn_str("", 0);
        } else {
            m = mn_str(cur.ptr, cur.len);
            if (memchr(cur.ptr, 0, cur.len)) {
                mon_violation("C11:string:embedded-nul", "get_string returned %zu bytes containing NUL", cur.len);
            }
        }
    } else {
        m = mn_new(is_o ? K_OBJ : K_ARR);
        struct collect c;
        if (collect_members(v, is_o, &c)) {
            if (is_a) {
                size_t sz = aws_json_get_array_size(v);
                if (sz != c.n) {
                    mon_violation("C11:array:size", "get_array_size %zu but iteration visited %zu elements", sz, c.n);
                }
                /* index access agrees with iteration order (all indices for small arrays, a spread for large ones) */
                size_t step = c.n > 48 ? c.n / 24 : 1;
                for (size_t i = 0; i < c.n; i += step) {
                    const struct aws_json_value *e = aws_json_get_array_element(v, i);
                    if (e != c.v[i]) {
                        mon_violation("C11:array:get-index", "get_array_element(%zu) of %zu is not the %zu-th value of the iteration%s", i,
                                      c.n, i, e ? "" : " (NULL)");
                        break;
                    }
                }
                if (c.n) {
                    const struct aws_json_value *e = aws_json_get_array_element(v, c.n - 1);
                    if (e != c.v[c.n - 1]) {
                        mon_violation("C11:array:get-index", "get_array_element(last=%zu) is not the last value of the iteration", c.n - 1);
                    }
                }
            } else {
                size_t lim = c.n > 40 ? 40 : c.n;
                for (size_t i = 0; i < lim; ++i) {
                    size_t first = i;
                    for (size_t j = 0; j < i; ++j) {
                        if (key_eq_fold(c.key[j], c.klen[j], c.key[i], c.klen[i])) {
                            first = j;
                            break;
                        }
                    }
                    const struct aws_json_value *e;
                    bool has;
                    if (i & 1) {
                        e = aws_json_value_get_from_object(v, aws_byte_cursor_from_array(c.key[i], c.klen[i]));
                        has = aws_json_value_has_key_c_str(v, (const char *)c.key[i]);
                    } else {
                        e = aws_json_value_get_from_object_c_str(v, (const char *)c.key[i]);
                        has = aws_json_value_has_key(v, aws_byte_cursor_from_array(c.key[i], c.klen[i]));
                    }
                    if (e != c.v[first] || !has) {
                        mon_violation(first == i ? "C11:object:get" : "C11:object:get:duplicate-keys",
                                      "member %zu of %zu with key %s: get_from_object %s, has_key=%d (first member with that key: %zu)", i,
                                      c.n, mon_hex(c.key[i], c.klen[i], 40),
                                      e == c.v[first] ? "ok" : (e ? "returned another member" : "returned NULL"), has, first);
                        break;
                    }
                }
            }
            for (size_t i = 0; i < c.n; ++i) {
                mn_add(m, is_o ? c.key[i] : NULL, is_o ? c.klen[i] : 0, extract(c.v[i]));
            }
        }
        collect_free(&c);
    }
    m->lib = (struct aws_json_value *)(uintptr_t)v;
    return m;
}

/* cheap check after every mutating call: order, keys and identity of the members of one container */
static bool verify_container(struct aws_json_value *lib, const struct mnode *m, const char *after) {
    struct collect c;
    bool obj = m->kind == K_OBJ;
    bool ok = true;
    if (!collect_members(lib, obj, &c)) {
        collect_free(&c);
        return false;
    }
    if (!obj) {
        size_t sz = aws_json_get_array_size(lib);
        if (sz != m->n) {
            mon_violation("C11:array:size", "after %s: get_array_size %zu, reference %zu", after, sz, m->n);
            ok = false;
        }
    }
    if (c.n != m->n) {
        mon_violation(obj ? "C11:object:order" : "C11:array:order", "after %s: iteration visits %zu members, reference has %zu", after, c.n,
                      m->n);
        ok = false;
    } else {
        for (size_t i = 0; i < c.n; ++i) {
            if (c.v[i] != m->kid[i]->lib) {
                mon_violation(obj ? "C11:object:order" : "C11:array:order",
                              "after %s: member %zu of %zu is not the value inserted %zu-th among the surviving ones", after, i, c.n, i);
                ok = false;
                break;
            }
            if (obj && !key_eq(c.key[i], c.klen[i], m->key[i], m->klen[i])) {
                mon_violation("C11:object:key-bytes", "after %s: member %zu has key %s, was added as %s", after, i,
                              mon_hex(c.key[i], c.klen[i], 60), mon_hex(m->key[i], m->klen[i], 60));
                ok = false;
                break;
            }
        }
    }
    collect_free(&c);
    return ok;
}

/* early stop / error return of the iteration callbacks (documented in the header) */
static void check_iterate_control(struct aws_json_value *lib, const struct mnode *m, struct mon_rng *r) {
    if (m->n == 0) {
        return;
    }
    bool obj = m->kind == K_OBJ;
    struct collect c;
    memset(&c, 0, sizeof(c));
    c.want_keys = obj;
    c.stop_after = (size_t)mon_below(r, m->n);
    c.fail_at_stop = mon_chance(r, 1, 2);
    int rc = obj ? aws_json_const_iterate_object(lib, s_on_member, &c) : aws_json_const_iterate_array(lib, s_on_value, &c);
    if (c.calls != c.stop_after + 1) {
        mon_violation("C11:iterate:stop", "callback asked to stop (%s) at member %zu of %zu but was called %zu times",
                      c.fail_at_stop ? "error" : "should_continue=false", c.stop_after, m->n, c.calls);
    }
    if ((rc == AWS_OP_SUCCESS) == c.fail_at_stop) {
        mon_violation("C11:iterate:stop", "iteration returned %d after the callback %s", rc,
                      c.fail_at_stop ? "returned AWS_OP_ERR" : "stopped without error");
    }
    mon_flag(F_ITERATE_EARLY_STOP);
    collect_free(&c);
}
