/*
 * C05 - codecs used by several threads at once (DESIGN.md section 10.5, C05).
 *
 * The codecs are functions of their arguments; a caller with its own input and its own output buffer relies on the
 * result not depending on what other threads are encoding or decoding at the same moment (no shared scratch state).
 * case = 2..8 threads, each with a private PRNG and private buffers, each doing `iters` rounds of
 *   base64 encode -> compare with a table-free reference -> decode -> compare with the input,
 *   hex encode -> reference -> decode -> input, hex decode of an odd-length text,
 *   base64 decode of a malformed text (must be refused, output untouched beyond what the path documents),
 *   UTF-8 validation of a valid and of a damaged text with a decoder of its own.
 * Oracle: every result equals the single-threaded reference; ThreadSanitizer / ASan from the build.
 * One process runs on ONE CPU path (AWS_COMMON_AVX2 in the environment), like c05_codecs.c.
 */
#include "mon.h"
#include "perturb.h"

#include <aws/common/byte_buf.h>
#include <aws/common/common.h>
#include <aws/common/encoding.h>
#include <aws/common/error.h>

#include <pthread.h>
#include <stdlib.h>
#include <string.h>

enum { F_B64_TAIL_PARTIAL, F_B64_LONG, F_B64_REFUSED, F_HEX_ODD, F_UTF8_REFUSED, F_THREADS_GE_4 };

#define MAX_THREADS 8
#define MAXN 200

static uint8_t b64c(unsigned v) {
    return (uint8_t)(v < 26 ? 'A' + v : v < 52 ? 'a' + (v - 26) : v < 62 ? '0' + (v - 52) : v == 62 ? '+' : '/');
}

static size_t ref_b64(const uint8_t *in, size_t n, uint8_t *out) {
    size_t o = 0;
    for (size_t i = 0; i < n; i += 3) {
        unsigned b0 = in[i], b1 = i + 1 < n ? in[i + 1] : 0, b2 = i + 2 < n ? in[i + 2] : 0;
        out[o++] = b64c(b0 >> 2);
        out[o++] = b64c(((b0 & 3) << 4) | (b1 >> 4));
        out[o++] = i + 1 < n ? b64c(((b1 & 15) << 2) | (b2 >> 6)) : '=';
        out[o++] = i + 2 < n ? b64c(b2 & 63) : '=';
    }
    return o;
}

static size_t ref_hex(const uint8_t *in, size_t n, uint8_t *out) {
    for (size_t i = 0; i < n; ++i) {
        out[2 * i] = (uint8_t)"0123456789abcdef"[in[i] >> 4];
        out[2 * i + 1] = (uint8_t)"0123456789abcdef"[in[i] & 15];
    }
    return 2 * n;
}

static int s_stop; /* set once any thread recorded a violation */
#define VIOL(...)                                   \
    do {                                            \
        mon_violation(__VA_ARGS__);                 \
        __atomic_store_n(&s_stop, 1, __ATOMIC_RELAXED); \
    } while (0)

struct worker {
    int idx;
    unsigned flags; /* mechanism flags seen by this thread; published by the main thread after the join */
    uint64_t seed;
    size_t iters;
    uint64_t calls;
};

static void *worker_main(void *arg) {
    struct worker *w = arg;
    perturb_bind((unsigned)(1 + w->idx));
    struct mon_rng rng;
    mon_rng_seed(&rng, w->seed, 0xC05, (uint64_t)w->idx);
    struct mon_rng *r = &rng;
    struct aws_allocator *alloc = aws_default_allocator();
    uint8_t data[MAXN + 8], text[2 * MAXN + 16], want[2 * MAXN + 16], back[MAXN + 40];
    for (size_t it = 0; it < w->iters && !__atomic_load_n(&s_stop, __ATOMIC_RELAXED); ++it) {
        size_t n = (size_t)mon_below(r, mon_chance(r, 1, 4) ? MAXN + 1 : 50);
        for (size_t i = 0; i < n; ++i) {
            data[i] = (uint8_t)mon_rand(r);
        }
        /* ---- base64 ---- */
        size_t wl = ref_b64(data, n, want);
        struct aws_byte_cursor dc = aws_byte_cursor_from_array(data, n);
        struct aws_byte_buf tb = aws_byte_buf_from_empty_array(text, wl + 1);
        int rc = aws_base64_encode(&dc, &tb);
        ++w->calls;
        if (rc != AWS_OP_SUCCESS || tb.len != wl || memcmp(text, want, wl)) {
            VIOL("C05:mt:base64-encode", "thread %d: aws_base64_encode of %zu bytes %s while other threads use the codec: rc=%d len=%zu, reference %zu bytes %.40s",
                          w->idx, n, mon_hex(data, n, 24), rc, tb.len, wl, (const char *)want);
        }
        struct aws_byte_cursor tc = aws_byte_cursor_from_array(want, wl);
        memset(back, 0xA5, sizeof(back));
        struct aws_byte_buf bb = aws_byte_buf_from_empty_array(back, n);
        rc = aws_base64_decode(&tc, &bb);
        ++w->calls;
        if (rc != AWS_OP_SUCCESS || bb.len != n || memcmp(back, data, n)) {
            VIOL("C05:mt:base64-decode",
                          "thread %d: aws_base64_decode of canonical text '%.*s' (%zu chars) while other threads use the codec: rc=%d (%s) len=%zu, got %s, expected %s", w->idx,
                          (int)(wl > 60 ? 60 : wl), (const char *)want, wl, rc, rc ? aws_error_name(aws_last_error()) : "-", bb.len, mon_hex(back, n, 24),
                          mon_hex(data, n, 24));
        }
        if (back[n] != 0xA5) {
            VIOL("C05:mt:base64-decode-overrun", "thread %d: byte behind the %zu-byte output changed", w->idx, n);
        }
        if (n % 3) {
            w->flags |= 1u << F_B64_TAIL_PARTIAL;
        }
        if (wl >= 64) {
            w->flags |= 1u << F_B64_LONG;
        }
        if (wl >= 4 && mon_chance(r, 1, 4)) {
            /* damage one character: must be refused */
            memcpy(text, want, wl);
            size_t at = (size_t)mon_below(r, wl);
            static const uint8_t bad[] = {'-', '_', ' ', '\n', 0x80, '.', 0x00, '*'};
            text[at] = bad[mon_below(r, sizeof(bad))];
            struct aws_byte_cursor xc = aws_byte_cursor_from_array(text, wl);
            struct aws_byte_buf xb = aws_byte_buf_from_empty_array(back, n + 3);
            aws_reset_error();
            rc = aws_base64_decode(&xc, &xb);
            ++w->calls;
            if (rc == AWS_OP_SUCCESS) {
                VIOL("C05:mt:base64-accepted-malformed", "thread %d: text with byte 0x%02x at %zu of %zu accepted", w->idx, text[at], at, wl);
            } else {
                w->flags |= 1u << F_B64_REFUSED;
            }
        }
        /* ---- hex ---- */
        size_t hl = ref_hex(data, n, want);
        struct aws_byte_buf hb = aws_byte_buf_from_empty_array(text, hl + 1);
        rc = aws_hex_encode(&dc, &hb);
        ++w->calls;
        if (rc != AWS_OP_SUCCESS || hb.len != hl || memcmp(text, want, hl)) {
            VIOL("C05:mt:hex-encode", "thread %d: aws_hex_encode of %zu bytes: rc=%d len=%zu (expected %zu)", w->idx, n, rc, hb.len, hl);
        }
        struct aws_byte_cursor hc = aws_byte_cursor_from_array(want, hl);
        struct aws_byte_buf hbk = aws_byte_buf_from_empty_array(back, n);
        rc = aws_hex_decode(&hc, &hbk);
        ++w->calls;
        if (rc != AWS_OP_SUCCESS || hbk.len != n || memcmp(back, data, n)) {
            VIOL("C05:mt:hex-decode", "thread %d: aws_hex_decode of %zu digits: rc=%d len=%zu", w->idx, hl, rc, hbk.len);
        }
        if (hl >= 3) {
            /* odd length: leading nibble stands alone */
            struct aws_byte_cursor oc = aws_byte_cursor_from_array(want + 1, hl - 1);
            struct aws_byte_buf ob = aws_byte_buf_from_empty_array(back, n);
            rc = aws_hex_decode(&oc, &ob);
            ++w->calls;
            bool ok = rc == AWS_OP_SUCCESS && ob.len == n && back[0] == (data[0] & 15) && !memcmp(back + 1, data + 1, n - 1);
            if (!ok) {
                VIOL("C05:mt:hex-decode-odd", "thread %d: aws_hex_decode of %zu digits (odd): rc=%d len=%zu", w->idx, hl - 1, rc, ob.len);
            }
            w->flags |= 1u << F_HEX_ODD;
        }
        /* ---- UTF-8: a valid text, then the same text with one byte damaged ---- */
        size_t tn = 0;
        size_t ncp = (size_t)mon_below(r, 30);
        for (size_t i = 0; i < ncp; ++i) {
            uint32_t cp;
            switch (mon_below(r, 4)) {
                case 0: cp = (uint32_t)mon_range(r, 1, 0x7F); break;
                case 1: cp = (uint32_t)mon_range(r, 0x80, 0x7FF); break;
                case 2: cp = (uint32_t)mon_range(r, 0x800, 0xD7FF); break;
                default: cp = (uint32_t)mon_range(r, 0x10000, 0x10FFFF); break;
            }
            if (cp < 0x80) {
                text[tn++] = (uint8_t)cp;
            } else if (cp < 0x800) {
                text[tn++] = (uint8_t)(0xC0 | (cp >> 6));
                text[tn++] = (uint8_t)(0x80 | (cp & 63));
            } else if (cp < 0x10000) {
                text[tn++] = (uint8_t)(0xE0 | (cp >> 12));
                text[tn++] = (uint8_t)(0x80 | ((cp >> 6) & 63));
                text[tn++] = (uint8_t)(0x80 | (cp & 63));
            } else {
                text[tn++] = (uint8_t)(0xF0 | (cp >> 18));
                text[tn++] = (uint8_t)(0x80 | ((cp >> 12) & 63));
                text[tn++] = (uint8_t)(0x80 | ((cp >> 6) & 63));
                text[tn++] = (uint8_t)(0x80 | (cp & 63));
            }
        }
        struct aws_utf8_decoder *dec = aws_utf8_decoder_new(alloc, NULL);
        size_t cut = tn ? (size_t)mon_below(r, tn + 1) : 0;
        struct aws_byte_cursor u1 = aws_byte_cursor_from_array(text, cut), u2 = aws_byte_cursor_from_array(text + cut, tn - cut);
        rc = aws_utf8_decoder_update(dec, u1) || aws_utf8_decoder_update(dec, u2) || aws_utf8_decoder_finalize(dec);
        ++w->calls;
        if (rc) {
            VIOL("C05:mt:utf8-valid-rejected", "thread %d: valid UTF-8 text %s (cut at %zu) rejected", w->idx, mon_hex(text, tn, 40), cut);
        }
        if (tn) {
            size_t at = (size_t)mon_below(r, tn);
            uint8_t old = text[at];
            text[at] = 0xFF; /* never valid */
            aws_utf8_decoder_reset(dec);
            rc = aws_utf8_decoder_update(dec, aws_byte_cursor_from_array(text, tn)) || aws_utf8_decoder_finalize(dec);
            ++w->calls;
            if (!rc) {
                VIOL("C05:mt:utf8-invalid-accepted", "thread %d: text with 0xFF at %zu accepted", w->idx, at);
            } else {
                w->flags |= 1u << F_UTF8_REFUSED;
            }
            text[at] = old;
        }
        aws_utf8_decoder_destroy(dec);
    }
    return NULL;
}

static void run_case(void) {
    struct mon_rng *r = &mon_case_rng;
    int n = 2 + (int)mon_below(r, MAX_THREADS - 1);
    size_t iters = (size_t)(mon_run.param[0] > 0 ? mon_run.param[0] : 300);
    int prof_idx = (int)mon_below(r, (uint64_t)perturb_nprofiles());
    uint64_t pseed = mon_rand(r);
    mon_fp((uint64_t)n * 16 + (uint64_t)prof_idx);
    __atomic_store_n(&s_stop, 0, __ATOMIC_RELAXED);
    struct worker w[MAX_THREADS];
    pthread_t th[MAX_THREADS];
    struct perturb_profile prof;
    perturb_get_profile(prof_idx, &prof);
    perturb_begin(pseed, &prof);
    perturb_bind(0);
    mon_watchdog_arm(300, "C05:mt:hang", "a codec call did not return");
    for (int i = 0; i < n; ++i) {
        w[i].idx = i;
        w[i].seed = mon_rand(r);
        w[i].iters = iters;
        w[i].calls = 0;
        w[i].flags = 0;
        if (pthread_create(&th[i], NULL, worker_main, &w[i])) {
            fprintf(stderr, "mon: pthread_create failed\n");
            exit(2);
        }
    }
    uint64_t calls = 0;
    for (int i = 0; i < n; ++i) {
        pthread_join(th[i], NULL);
        calls += w[i].calls;
        for (int f = 0; f <= F_THREADS_GE_4; ++f) {
            if (w[i].flags & (1u << f)) {
                mon_flag(f);
            }
        }
    }
    perturb_end();
    mon_watchdog_disarm();
    if (n >= 4) {
        mon_flag(F_THREADS_GE_4);
    }
    mon_count("mt_scenarios", 1);
    mon_count("mt_codec_calls_concurrent", calls);
    mon_count_max("mt_max_threads", (uint64_t)n);
    mon_sample("mt: %d threads x %zu rounds, profile %s, %llu codec calls", n, iters, perturb_profile_name(prof_idx), (unsigned long long)calls);
}

int main(int argc, char **argv) {
    mon_init(argc, argv, "C05");
    aws_common_library_init(aws_default_allocator());
    static const char *names[] = {"mt_base64_partial_final_quantum", "mt_base64_text_ge_64_chars", "mt_base64_malformed_refused", "mt_hex_odd_length",
                                  "mt_utf8_invalid_refused", "mt_four_or_more_threads"};
    for (int i = 0; i < (int)(sizeof(names) / sizeof(names[0])); ++i) {
        mon_flag_name(i, names[i]);
    }
    {
        /* the library resolves its CPU dispatch lazily on the first codec call (unsynchronised cache in cpuid.c, noted in
         * DESIGN.md section 9); do that before any thread exists, as a program that initialises on its main thread does */
        uint8_t in[3] = {1, 2, 3}, out[8];
        struct aws_byte_cursor c = aws_byte_cursor_from_array(in, 3);
        struct aws_byte_buf b = aws_byte_buf_from_empty_array(out, sizeof(out));
        aws_base64_encode(&c, &b);
        struct aws_byte_cursor t = aws_byte_cursor_from_buf(&b);
        struct aws_byte_buf d = aws_byte_buf_from_empty_array(in, 3);
        aws_base64_decode(&t, &d);
    }
    mon_watchdog_arm(3600, "C05:mt:hang", "startup");
    mon_watchdog_disarm();
    uint64_t c;
    while (mon_next_case(&c)) {
        mon_case_begin(c);
        run_case();
        mon_case_end(mon_flag_count() >= 3);
    }
    return mon_finish();
}
