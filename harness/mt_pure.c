/*
 * mt_pure.c - reentrancy monitor for the modules whose operations are functions of the caller's own objects
 * (DESIGN.md section 10.5, "reentrancy stages").  --mode date | uri | json | xml | cbor | hash
 *
 * A caller that gives a parser / formatter / codec its own input and its own output relies on the result not depending
 * on what other threads parse or format at the same moment: no process-wide scratch buffers, no unsynchronised caches.
 * case = 2..8 threads; thread i derives a workload from its private seed and folds EVERYTHING it observes (return codes,
 * error codes, produced text, parsed fields) into a 64-bit digest.  Before the threads start, the main thread runs the
 * very same workloads one after the other and records the digests.  Oracle: every thread's digest equals the digest of
 * its workload run alone; ThreadSanitizer / ASan from the build (a race on a hidden static is reported even when the
 * results happen to agree).  This is deliberately not a second copy of the per-property reference models: the
 * single-threaded run of the same library is the reference, so any input the library accepts can be used.
 */
#include "mon.h"
#include "perturb.h"

#include <aws/common/byte_buf.h>
#include <aws/common/cbor.h>
#include <aws/common/clock.h>
#include <aws/common/math.h>
#include <aws/common/common.h>
#include <aws/common/date_time.h>
#include <aws/common/error.h>
#include <aws/common/hash_table.h>
#include <aws/common/json.h>
#include <aws/common/string.h>
#include <aws/common/uri.h>
#include <aws/common/xml_parser.h>

#include <pthread.h>
#include <stdlib.h>
#include <string.h>

#define MAX_THREADS 8

enum { M_DATE, M_URI, M_JSON, M_XML, M_CBOR, M_HASH, M_CLOCK };
static int s_mode;
static const char *s_prop = "C00";

/* ------------------------------------------------------------------ digest */
static inline void dg(uint64_t *d, uint64_t v) {
    *d = (*d ^ v) * 1099511628211ULL;
    *d ^= *d >> 29;
}
static void dg_bytes(uint64_t *d, const void *p, size_t n) {
    const uint8_t *b = p;
    dg(d, n);
    for (size_t i = 0; i < n; ++i) {
        dg(d, b[i]);
    }
}
static void dg_cur(uint64_t *d, const struct aws_byte_cursor *c) {
    dg_bytes(d, c->ptr, c->len);
}

/* ------------------------------------------------------------------ workloads (one round each) */
static void round_date(struct mon_rng *r, uint64_t *d) {
    static const enum aws_date_format F[] = {AWS_DATE_FORMAT_RFC822, AWS_DATE_FORMAT_ISO_8601, AWS_DATE_FORMAT_ISO_8601_BASIC};
    uint64_t t = mon_chance(r, 1, 2) ? mon_below(r, 4102444800ULL) : mon_below(r, 253402300800ULL);
    struct aws_date_time dt;
    aws_date_time_init_epoch_secs(&dt, (double)t);
    dg(d, aws_date_time_year(&dt, false));
    dg(d, (uint64_t)aws_date_time_month(&dt, false));
    dg(d, aws_date_time_month_day(&dt, false));
    dg(d, (uint64_t)aws_date_time_day_of_week(&dt, false));
    dg(d, aws_date_time_hour(&dt, false));
    dg(d, aws_date_time_minute(&dt, false));
    dg(d, aws_date_time_second(&dt, false));
    for (int f = 0; f < 3; ++f) {
        uint8_t txt[AWS_DATE_TIME_STR_MAX_LEN + 8];
        struct aws_byte_buf b = aws_byte_buf_from_empty_array(txt, AWS_DATE_TIME_STR_MAX_LEN);
        int rc = mon_chance(r, 1, 4) ? aws_date_time_to_utc_time_short_str(&dt, F[f], &b) : aws_date_time_to_utc_time_str(&dt, F[f], &b);
        dg(d, (uint64_t)rc);
        dg_bytes(d, b.buffer, b.len);
        struct aws_byte_cursor c = aws_byte_cursor_from_buf(&b);
        struct aws_date_time back;
        aws_reset_error();
        rc = aws_date_time_init_from_str_cursor(&back, &c, mon_chance(r, 1, 2) ? F[f] : AWS_DATE_FORMAT_AUTO_DETECT);
        dg(d, (uint64_t)rc);
        dg(d, rc ? (uint64_t)aws_last_error() : (uint64_t)aws_date_time_as_epoch_secs(&back));
        if (!rc) {
            dg(d, aws_date_time_as_millis(&back));
        }
    }
    /* hand-written texts with offsets and designators */
    char txt[96];
    static const char *const Z[] = {"Z", "GMT", "UTC", "UT", "+0000", "-0130", "+05:30", "-08:00", "z", "+0900"};
    int k = (int)mon_below(r, 10);
    unsigned Y = 1970 + (unsigned)mon_below(r, 300), Mo = 1 + (unsigned)mon_below(r, 12), D = 1 + (unsigned)mon_below(r, 28);
    unsigned h = (unsigned)mon_below(r, 24), mi = (unsigned)mon_below(r, 60), s = (unsigned)mon_below(r, 60);
    int n;
    if (mon_chance(r, 1, 2)) {
        static const char *const MON[] = {"Jan", "Feb", "Mar", "Apr", "May", "Jun", "Jul", "Aug", "Sep", "Oct", "Nov", "Dec"};
        n = snprintf(txt, sizeof(txt), "Mon, %02u %s %u %02u:%02u:%02u %s", D, MON[Mo - 1], Y, h, mi, s, Z[k]);
    } else {
        n = snprintf(txt, sizeof(txt), "%04u-%02u-%02uT%02u:%02u:%02u%s%s", Y, Mo, D, h, mi, s, mon_chance(r, 1, 3) ? ".125" : "", Z[k]);
    }
    struct aws_byte_cursor c = aws_byte_cursor_from_array(txt, (size_t)n);
    struct aws_date_time p;
    aws_reset_error();
    int rc = aws_date_time_init_from_str_cursor(&p, &c, AWS_DATE_FORMAT_AUTO_DETECT);
    dg(d, (uint64_t)rc);
    dg(d, rc ? (uint64_t)aws_last_error() : aws_date_time_as_millis(&p));
}

static void round_uri(struct mon_rng *r, uint64_t *d) {
    struct aws_allocator *alloc = aws_default_allocator();
    char txt[256];
    static const char *const SCH[] = {"", "http://", "https://", "s3://", "a+b.c://"};
    static const char *const UI[] = {"", "u@", "u:p@", ":p@", "user%20x:pw@"};
    static const char *const HOST[] = {"example.com", "10.0.0.1", "[::1]", "[2001:db8::8:800:200c:417a]", "h", "a-b.c_d~e"};
    static const char *const PORT[] = {"", ":80", ":65535", ":0", ":", ":8a", ":4294967296"};
    static const char *const PATH[] = {"", "/", "/a/b", "//x", "/a:b@c", "/p%41th/"};
    static const char *const QRY[] = {"", "?", "?k=v", "?a=1&&b=2", "?k", "?k=", "?=v", "?a=1&b&c=&=d&&e==", "?r=http://e/"};
    int n = snprintf(txt, sizeof(txt), "%s%s%s%s%s%s", SCH[mon_below(r, 5)], UI[mon_below(r, 5)], HOST[mon_below(r, 6)], PORT[mon_below(r, 7)],
                     PATH[mon_below(r, 6)], QRY[mon_below(r, 9)]);
    struct aws_byte_cursor c = aws_byte_cursor_from_array(txt, (size_t)n);
    struct aws_uri uri;
    aws_reset_error();
    int rc = aws_uri_init_parse(&uri, alloc, &c);
    dg(d, (uint64_t)rc);
    if (rc) {
        dg(d, (uint64_t)aws_last_error());
    } else {
        dg_cur(d, aws_uri_scheme(&uri));
        dg_cur(d, aws_uri_authority(&uri));
        dg_cur(d, aws_uri_host_name(&uri));
        dg(d, aws_uri_port(&uri));
        dg_cur(d, aws_uri_path(&uri));
        dg_cur(d, aws_uri_query_string(&uri));
        dg_cur(d, aws_uri_path_and_query(&uri));
        struct aws_uri_param p;
        AWS_ZERO_STRUCT(p);
        while (aws_uri_query_string_next_param(&uri, &p)) {
            dg_cur(d, &p.key);
            dg_cur(d, &p.value);
        }
        aws_uri_clean_up(&uri);
    }
    /* percent codecs on random bytes */
    uint8_t raw[48];
    size_t rn = (size_t)mon_below(r, sizeof(raw) + 1);
    for (size_t i = 0; i < rn; ++i) {
        raw[i] = (uint8_t)mon_rand(r);
    }
    struct aws_byte_cursor rc_ = aws_byte_cursor_from_array(raw, rn);
    struct aws_byte_buf enc, dec;
    aws_byte_buf_init(&enc, alloc, 8);
    aws_byte_buf_init(&dec, alloc, 8);
    dg(d, (uint64_t)(mon_chance(r, 1, 2) ? aws_byte_buf_append_encoding_uri_path(&enc, &rc_) : aws_byte_buf_append_encoding_uri_param(&enc, &rc_)));
    dg_bytes(d, enc.buffer, enc.len);
    struct aws_byte_cursor ec = aws_byte_cursor_from_buf(&enc);
    dg(d, (uint64_t)aws_byte_buf_append_decoding_uri(&dec, &ec));
    dg_bytes(d, dec.buffer, dec.len);
    aws_byte_buf_clean_up(&enc);
    aws_byte_buf_clean_up(&dec);
}

static void json_text(struct mon_rng *r, struct aws_byte_buf *o, int depth) {
    unsigned k = (unsigned)mon_below(r, depth >= 4 ? 5 : 8);
    char tmp[64];
    switch (k) {
        case 0: aws_byte_buf_append_dynamic(o, &(struct aws_byte_cursor){4, (uint8_t *)"null"}); break;
        case 1: aws_byte_buf_append_dynamic(o, &(struct aws_byte_cursor){4, (uint8_t *)"true"}); break;
        case 2: {
            int n = snprintf(tmp, sizeof(tmp), "%.17g", (double)(int64_t)mon_rand(r) / (double)(1 + mon_below(r, 1000000)));
            aws_byte_buf_append_dynamic(o, &(struct aws_byte_cursor){(size_t)n, (uint8_t *)tmp});
            break;
        }
        case 3: {
            int n = snprintf(tmp, sizeof(tmp), "%lld", (long long)(int32_t)mon_rand(r));
            aws_byte_buf_append_dynamic(o, &(struct aws_byte_cursor){(size_t)n, (uint8_t *)tmp});
            break;
        }
        case 4: {
            static const char *const S[] = {"\"\"", "\"a\"", "\"\\u00e9\\n\\\"x\"", "\"\\ud83d\\ude00\"", "\"tab\\there/\\/\"", "\"\xc3\xa9\xe2\x82\xac\""};
            const char *s = S[mon_below(r, 6)];
            aws_byte_buf_append_dynamic(o, &(struct aws_byte_cursor){strlen(s), (uint8_t *)s});
            break;
        }
        case 5:
        case 6: {
            size_t n = (size_t)mon_below(r, 5);
            aws_byte_buf_append_byte_dynamic(o, '[');
            for (size_t i = 0; i < n; ++i) {
                if (i) {
                    aws_byte_buf_append_byte_dynamic(o, ',');
                }
                json_text(r, o, depth + 1);
            }
            aws_byte_buf_append_byte_dynamic(o, ']');
            break;
        }
        default: {
            size_t n = (size_t)mon_below(r, 5);
            aws_byte_buf_append_byte_dynamic(o, '{');
            for (size_t i = 0; i < n; ++i) {
                int kn = snprintf(tmp, sizeof(tmp), "%s\"k%u\":", i ? "," : "", (unsigned)mon_below(r, 6));
                aws_byte_buf_append_dynamic(o, &(struct aws_byte_cursor){(size_t)kn, (uint8_t *)tmp});
                json_text(r, o, depth + 1);
            }
            aws_byte_buf_append_byte_dynamic(o, '}');
            break;
        }
    }
}

static void round_json(struct mon_rng *r, uint64_t *d) {
    struct aws_allocator *alloc = aws_default_allocator();
    struct aws_byte_buf txt, out;
    aws_byte_buf_init(&txt, alloc, 64);
    aws_byte_buf_init(&out, alloc, 64);
    json_text(r, &txt, 0);
    if (mon_chance(r, 1, 10) && txt.len > 2) {
        txt.buffer[mon_below(r, txt.len)] = (uint8_t)"}],:x\""[mon_below(r, 6)]; /* mostly malformed now */
    }
    struct aws_json_value *v = aws_json_value_new_from_string(alloc, aws_byte_cursor_from_buf(&txt));
    dg(d, v != NULL);
    if (v) {
        dg(d, (uint64_t)aws_byte_buf_append_json_string(v, &out));
        dg_bytes(d, out.buffer, out.len);
        out.len = 0;
        dg(d, (uint64_t)aws_byte_buf_append_json_string_formatted(v, &out));
        dg_bytes(d, out.buffer, out.len);
        struct aws_json_value *dup = aws_json_value_duplicate(v);
        dg(d, dup != NULL);
        if (dup) {
            out.len = 0;
            dg(d, (uint64_t)aws_byte_buf_append_json_string(dup, &out));
            dg_bytes(d, out.buffer, out.len);
            aws_json_value_destroy(dup);
        }
        if (aws_json_value_is_object(v)) {
            dg(d, aws_json_value_has_key_c_str(v, "k1"));
            dg(d, aws_json_value_get_from_object_c_str(v, "K2") != NULL);
        } else if (aws_json_value_is_array(v)) {
            dg(d, aws_json_get_array_size(v));
        }
        aws_json_value_destroy(v);
    }
    /* a tree built through the API */
    struct aws_json_value *o = aws_json_value_new_object(alloc);
    for (int i = 0; i < 4; ++i) {
        char key[8];
        snprintf(key, sizeof(key), "n%d", (int)mon_below(r, 5));
        struct aws_json_value *num = aws_json_value_new_number(alloc, (double)(int64_t)mon_rand(r) / 1024.0);
        if (aws_json_value_add_to_object_c_str(o, key, num)) {
            dg(d, 77);
            aws_json_value_destroy(num);
        }
    }
    out.len = 0;
    dg(d, (uint64_t)aws_byte_buf_append_json_string(o, &out));
    dg_bytes(d, out.buffer, out.len);
    aws_json_value_destroy(o);
    aws_byte_buf_clean_up(&txt);
    aws_byte_buf_clean_up(&out);
}

struct xml_ud {
    uint64_t *d;
    struct mon_rng *r;
    int depth;
};

static int xml_on_node(struct aws_xml_node *node, void *user) {
    struct xml_ud *u = user;
    struct aws_byte_cursor name = aws_xml_node_get_name(node);
    dg_cur(u->d, &name);
    size_t na = aws_xml_node_get_num_attributes(node);
    dg(u->d, na);
    for (size_t i = 0; i < na; ++i) {
        struct aws_xml_attribute a = aws_xml_node_get_attribute(node, i);
        dg_cur(u->d, &a.name);
        dg_cur(u->d, &a.value);
    }
    int rc;
    if (name.len && name.ptr[0] == 'l') {
        struct aws_byte_cursor body;
        AWS_ZERO_STRUCT(body);
        rc = aws_xml_node_as_body(node, &body);
        dg(u->d, (uint64_t)rc);
        dg_cur(u->d, &body);
    } else {
        ++u->depth;
        rc = aws_xml_node_traverse(node, xml_on_node, u);
        --u->depth;
        dg(u->d, (uint64_t)rc);
    }
    return rc;
}

static void xml_text(struct mon_rng *r, struct aws_byte_buf *o, int depth) {
    char tmp[96];
    if (depth >= 4 || mon_chance(r, 2, 5)) {
        int n = snprintf(tmp, sizeof(tmp), "<l%u a=\"%u\">text %u &amp; more</l%u>", (unsigned)depth, (unsigned)mon_below(r, 100), (unsigned)mon_below(r, 1000),
                         (unsigned)depth);
        aws_byte_buf_append_dynamic(o, &(struct aws_byte_cursor){(size_t)n, (uint8_t *)tmp});
        return;
    }
    unsigned id = (unsigned)mon_below(r, 3);
    int n = snprintf(tmp, sizeof(tmp), "<n%u%s>", id, mon_chance(r, 1, 2) ? " x=\"1\" yy='two'" : "");
    aws_byte_buf_append_dynamic(o, &(struct aws_byte_cursor){(size_t)n, (uint8_t *)tmp});
    size_t kids = (size_t)mon_below(r, 4);
    for (size_t i = 0; i < kids; ++i) {
        xml_text(r, o, depth + 1);
    }
    n = snprintf(tmp, sizeof(tmp), "</n%u>", id);
    aws_byte_buf_append_dynamic(o, &(struct aws_byte_cursor){(size_t)n, (uint8_t *)tmp});
}

static void round_xml(struct mon_rng *r, uint64_t *d) {
    struct aws_allocator *alloc = aws_default_allocator();
    struct aws_byte_buf txt;
    aws_byte_buf_init(&txt, alloc, 128);
    if (mon_chance(r, 1, 2)) {
        static const char pre[] = "<?xml version=\"1.0\" encoding=\"UTF-8\"?>\n";
        aws_byte_buf_append_dynamic(&txt, &(struct aws_byte_cursor){sizeof(pre) - 1, (uint8_t *)pre});
    }
    aws_byte_buf_append_dynamic(&txt, &(struct aws_byte_cursor){6, (uint8_t *)"<root>"});
    size_t kids = 1 + (size_t)mon_below(r, 4);
    for (size_t i = 0; i < kids; ++i) {
        xml_text(r, &txt, 1);
    }
    aws_byte_buf_append_dynamic(&txt, &(struct aws_byte_cursor){7, (uint8_t *)"</root>"});
    if (mon_chance(r, 1, 8) && txt.len > 10) {
        txt.len -= 1 + (size_t)mon_below(r, 6); /* truncated */
    }
    struct xml_ud u = {d, r, 0};
    struct aws_xml_parser_options opt = {.doc = aws_byte_cursor_from_buf(&txt), .max_depth = mon_chance(r, 1, 4) ? 3 : 0, .on_root_encountered = xml_on_node, .user_data = &u};
    aws_reset_error();
    int rc = aws_xml_parse(alloc, &opt);
    dg(d, (uint64_t)rc);
    if (rc) {
        dg(d, (uint64_t)aws_last_error());
    }
    aws_byte_buf_clean_up(&txt);
}

static void round_cbor(struct mon_rng *r, uint64_t *d) {
    struct aws_allocator *alloc = aws_default_allocator();
    struct aws_cbor_encoder *enc = aws_cbor_encoder_new(alloc);
    size_t n = 1 + (size_t)mon_below(r, 12);
    uint8_t kinds[16];
    for (size_t i = 0; i < n; ++i) {
        kinds[i] = (uint8_t)mon_below(r, 7);
        switch (kinds[i]) {
            case 0: aws_cbor_encoder_write_uint(enc, mon_rand(r) >> mon_below(r, 64)); break;
            case 1: aws_cbor_encoder_write_negint(enc, mon_rand(r) >> mon_below(r, 64)); break;
            case 2: aws_cbor_encoder_write_float(enc, (double)(int64_t)mon_rand(r) / 4096.0); break;
            case 3: aws_cbor_encoder_write_bool(enc, mon_chance(r, 1, 2)); break;
            case 4: {
                uint8_t s[24];
                size_t l = (size_t)mon_below(r, sizeof(s) + 1);
                for (size_t k = 0; k < l; ++k) {
                    s[k] = (uint8_t)('a' + mon_below(r, 26));
                }
                aws_cbor_encoder_write_text(enc, aws_byte_cursor_from_array(s, l));
                break;
            }
            case 5:
                aws_cbor_encoder_write_tag(enc, mon_below(r, 40));
                aws_cbor_encoder_write_uint(enc, mon_below(r, 1000));
                break;
            default:
                aws_cbor_encoder_write_array_start(enc, 2);
                aws_cbor_encoder_write_null(enc);
                aws_cbor_encoder_write_float(enc, 1.5 + (double)mon_below(r, 100));
                break;
        }
    }
    struct aws_byte_cursor bytes = aws_cbor_encoder_get_encoded_data(enc);
    dg_cur(d, &bytes);
    struct aws_cbor_decoder *dec = aws_cbor_decoder_new(alloc, bytes);
    for (size_t i = 0; i < n; ++i) {
        enum aws_cbor_type t = AWS_CBOR_TYPE_UNKNOWN;
        dg(d, (uint64_t)aws_cbor_decoder_peek_type(dec, &t));
        dg(d, (uint64_t)t);
        uint64_t u = 0;
        double f = 0;
        bool b = false;
        struct aws_byte_cursor c;
        AWS_ZERO_STRUCT(c);
        if (mon_chance(r, 1, 3)) {
            dg(d, (uint64_t)aws_cbor_decoder_consume_next_whole_data_item(dec));
        } else {
            switch (t) {
                case AWS_CBOR_TYPE_UINT: dg(d, (uint64_t)aws_cbor_decoder_pop_next_unsigned_int_val(dec, &u)); dg(d, u); break;
                case AWS_CBOR_TYPE_NEGINT: dg(d, (uint64_t)aws_cbor_decoder_pop_next_negative_int_val(dec, &u)); dg(d, u); break;
                case AWS_CBOR_TYPE_FLOAT: dg(d, (uint64_t)aws_cbor_decoder_pop_next_float_val(dec, &f)); dg_bytes(d, &f, sizeof(f)); break;
                case AWS_CBOR_TYPE_BOOL: dg(d, (uint64_t)aws_cbor_decoder_pop_next_boolean_val(dec, &b)); dg(d, b); break;
                case AWS_CBOR_TYPE_TEXT: dg(d, (uint64_t)aws_cbor_decoder_pop_next_text_val(dec, &c)); dg_cur(d, &c); break;
                default: dg(d, (uint64_t)aws_cbor_decoder_consume_next_whole_data_item(dec)); break;
            }
        }
        dg(d, aws_cbor_decoder_get_remaining_length(dec));
    }
    aws_cbor_decoder_destroy(dec);
    aws_cbor_encoder_destroy(enc);
}

static void round_hash(struct mon_rng *r, uint64_t *d) {
    struct aws_allocator *alloc = aws_default_allocator();
    uint8_t key[40];
    size_t l = (size_t)mon_below(r, sizeof(key) - 4);
    size_t off = (size_t)mon_below(r, 4);
    for (size_t i = 0; i < l; ++i) {
        key[off + i] = (uint8_t)mon_rand(r);
    }
    struct aws_byte_cursor c = aws_byte_cursor_from_array(key + off, l);
    dg(d, aws_hash_byte_cursor_ptr(&c));
    dg(d, aws_hash_byte_cursor_ptr_ignore_case(&c));
    struct aws_string *s = aws_string_new_from_cursor(alloc, &c);
    dg(d, aws_hash_string(s));
    /* a table of this thread's own */
    struct aws_hash_table t;
    if (aws_hash_table_init(&t, alloc, (size_t)mon_below(r, 8), aws_hash_string, aws_hash_callback_string_eq, aws_hash_callback_string_destroy, NULL) == AWS_OP_SUCCESS) {
        for (int i = 0; i < 24; ++i) {
            char kb[8];
            int kl = snprintf(kb, sizeof(kb), "k%u", (unsigned)mon_below(r, 16));
            struct aws_string *k = aws_string_new_from_array(alloc, (const uint8_t *)kb, (size_t)kl);
            int created = 0;
            if (mon_chance(r, 2, 3)) {
                dg(d, (uint64_t)aws_hash_table_put(&t, k, (void *)(uintptr_t)(i + 1), &created));
                dg(d, (uint64_t)created);
                if (!created) {
                    /* the table kept its old key object? no: put replaces the key and destroys the old one */
                }
            } else {
                int was = 0;
                dg(d, (uint64_t)aws_hash_table_remove(&t, k, NULL, &was));
                dg(d, (uint64_t)was);
                aws_string_destroy(k);
            }
            dg(d, aws_hash_table_get_entry_count(&t));
        }
        uint64_t sum = 0;
        for (struct aws_hash_iter it = aws_hash_iter_begin(&t); !aws_hash_iter_done(&it); aws_hash_iter_next(&it)) {
            sum += (uint64_t)(uintptr_t)it.element.value * 31 + aws_hash_string(it.element.key);
        }
        dg(d, sum);
        aws_hash_table_clean_up(&t);
    }
    aws_string_destroy(s);
}

/* tick conversions and checked arithmetic: every thread stays on ONE frequency pair (derived from its seed), different
 * threads on different pairs, which is how callers use them */
static void round_clock(struct mon_rng *r, uint64_t *d, uint64_t pair_seed) {
    static const uint64_t FREQ[] = {1, 1000, 1000000, 1000000000, 48000, 44100, 60, 90000, 3, 1024};
    uint64_t oldf = FREQ[pair_seed % 10], newf = FREQ[(pair_seed / 10) % 10];
    for (int k = 0; k < 8; ++k) {
        uint64_t ticks = mon_rand(r) >> mon_below(r, 64);
        uint64_t rem = 0;
        dg(d, aws_timestamp_convert_u64(ticks, oldf, newf, &rem));
        dg(d, rem);
        dg(d, aws_timestamp_convert_u64(ticks, oldf, newf, NULL));
        static const enum aws_timestamp_unit U[] = {AWS_TIMESTAMP_SECS, AWS_TIMESTAMP_MILLIS, AWS_TIMESTAMP_MICROS, AWS_TIMESTAMP_NANOS};
        rem = 0;
        dg(d, aws_timestamp_convert(ticks, U[pair_seed % 4], U[(pair_seed / 4) % 4], &rem));
        dg(d, rem);
        uint64_t a = mon_rand(r), b = mon_rand(r) >> mon_below(r, 64), out = 0;
        dg(d, (uint64_t)aws_mul_u64_checked(a, b, &out));
        dg(d, aws_mul_u64_saturating(a, b));
        dg(d, aws_add_u64_saturating(a, b));
        size_t so = 0;
        dg(d, (uint64_t)aws_add_size_checked((size_t)a, (size_t)b, &so));
    }
}

static void workload(uint64_t seed, size_t rounds, uint64_t *digest) {
    struct mon_rng rng;
    mon_rng_seed(&rng, seed, 0x3717, (uint64_t)s_mode);
    uint64_t d = 0xcbf29ce484222325ULL;
    for (size_t i = 0; i < rounds; ++i) {
        switch (s_mode) {
            case M_DATE: round_date(&rng, &d); break;
            case M_URI: round_uri(&rng, &d); break;
            case M_JSON: round_json(&rng, &d); break;
            case M_XML: round_xml(&rng, &d); break;
            case M_CBOR: round_cbor(&rng, &d); break;
            case M_CLOCK: round_clock(&rng, &d, seed); break;
            default: round_hash(&rng, &d); break;
        }
    }
    *digest = d;
}

struct worker {
    int idx;
    uint64_t seed;
    size_t rounds;
    uint64_t digest;
};

static void *worker_main(void *arg) {
    struct worker *w = arg;
    perturb_bind((unsigned)(1 + w->idx));
    workload(w->seed, w->rounds, &w->digest);
    return NULL;
}

static void run_case(void) {
    struct mon_rng *r = &mon_case_rng;
    int n = 2 + (int)mon_below(r, MAX_THREADS - 1);
    size_t rounds = (size_t)(mon_run.param[0] > 0 ? mon_run.param[0] : 200);
    int prof_idx = (int)mon_below(r, (uint64_t)perturb_nprofiles());
    uint64_t pseed = mon_rand(r);
    mon_fp((uint64_t)n * 16 + (uint64_t)prof_idx);
    struct worker w[MAX_THREADS];
    uint64_t alone[MAX_THREADS];
    for (int i = 0; i < n; ++i) {
        w[i].idx = i;
        w[i].seed = mon_rand(r);
        w[i].rounds = rounds;
        w[i].digest = 0;
        /* identical workloads on two threads now and then: same inputs at the same time */
        if (i > 0 && mon_chance(r, 1, 4)) {
            w[i].seed = w[i - 1].seed;
        }
        workload(w[i].seed, rounds, &alone[i]);
        mon_fp(alone[i]);
    }
    struct perturb_profile prof;
    perturb_get_profile(prof_idx, &prof);
    perturb_begin(pseed, &prof);
    perturb_bind(0);
    char key[48];
    snprintf(key, sizeof(key), "%s:mt:hang", s_prop);
    mon_watchdog_arm(300, key, "a library call did not return while other threads used the same module");
    pthread_t th[MAX_THREADS];
    for (int i = 0; i < n; ++i) {
        if (pthread_create(&th[i], NULL, worker_main, &w[i])) {
            fprintf(stderr, "mon: pthread_create failed\n");
            exit(2);
        }
    }
    for (int i = 0; i < n; ++i) {
        pthread_join(th[i], NULL);
    }
    perturb_end();
    mon_watchdog_disarm();
    for (int i = 0; i < n; ++i) {
        if (w[i].digest != alone[i]) {
            snprintf(key, sizeof(key), "%s:mt:result-depends-on-other-threads", s_prop);
            mon_violation(key,
                          "mode %s: thread %d of %d ran %zu rounds (workload seed %016llx); digest of everything it observed is %016llx, the same workload run alone "
                          "gives %016llx",
                          mon_run.mode, i, n, rounds, (unsigned long long)w[i].seed, (unsigned long long)w[i].digest, (unsigned long long)alone[i]);
        }
    }
    mon_flag(0);
    if (n >= 4) {
        mon_flag(1);
    }
    mon_count("mt_scenarios", 1);
    mon_count("mt_rounds_run_concurrently", (uint64_t)n * rounds);
    mon_count_max("mt_max_threads", (uint64_t)n);
    mon_sample("mt %s: %d threads x %zu rounds, profile %s", mon_run.mode, n, rounds, perturb_profile_name(prof_idx));
}

int main(int argc, char **argv) {
    /* the property id is chosen by the mode so that violation keys carry it */
    const char *mode = "date";
    for (int i = 1; i + 1 < argc; ++i) {
        if (!strcmp(argv[i], "--mode")) {
            mode = argv[i + 1];
        }
    }
    static const struct {
        const char *name;
        int mode;
        const char *prop;
    } MODES[] = {{"date", M_DATE, "C19"}, {"uri", M_URI, "C13"}, {"json", M_JSON, "C11"}, {"xml", M_XML, "C12"}, {"cbor", M_CBOR, "C10"}, {"hash", M_HASH, "C02"}, {"clock", M_CLOCK, "C16"}};
    for (size_t i = 0; i < sizeof(MODES) / sizeof(MODES[0]); ++i) {
        if (!strcmp(mode, MODES[i].name)) {
            s_mode = MODES[i].mode;
            s_prop = MODES[i].prop;
        }
    }
    mon_init(argc, argv, s_prop);
    aws_common_library_init(aws_default_allocator());
    mon_flag_name(0, "mt_concurrent_scenario");
    mon_flag_name(1, "mt_four_or_more_threads");
    {
        /* resolve lazily initialised process-wide state (CPU feature cache, ...) on the main thread first */
        uint64_t warm;
        workload(1, 3, &warm);
    }
    char key[48];
    snprintf(key, sizeof(key), "%s:mt:hang", s_prop);
    mon_watchdog_arm(3600, key, "startup");
    mon_watchdog_disarm();
    uint64_t c;
    while (mon_next_case(&c)) {
        mon_case_begin(c);
        run_case();
        mon_case_end(true);
    }
    return mon_finish();
}
