/*
 * C13 - URI parsing, building and percent-coding are mutually consistent (DESIGN.md section 5, C13).
 *
 * Case index layout (identical in every stage):
 *   [0, NCROSS)              full cross product of the component classes below (index permuted so that neighbouring
 *                            cases differ in every component): parse + accessors + pointer containment + query
 *                            iterator/list + builder round trip (query string and parameter list)
 *   [NCROSS, NCROSS+256)     one case per byte value b: both encoders over b at every starting length 0..40, all 256
 *                            byte values in one string, decode round trip, decoder over '%' b x for all 256 x
 *   [NCROSS+256, ...)        PRNG-derived: random URIs from component alphabets, random encoder inputs, decoder inputs
 *                            with malformed escapes, stand-alone query strings (--p0 inputs per case index, default 1)
 *
 * Oracle: the expected fields come from the GENERATOR (it knows which bytes it put where), never from scanning the
 * assembled text the way the parser does.  Where the library's documented behaviour differs from a naive reading this
 * file says so next to the rule (search for "documented").
 */
#include "mon.h"

#include <aws/common/array_list.h>
#include <aws/common/byte_buf.h>
#include <aws/common/common.h>
#include <aws/common/error.h>
#include <aws/common/uri.h>

#include <stdlib.h>

#define MAXS 1024
#define MAXP 96  /* reference parameters per query */
#define MAXENC 1024

enum {
    F_PARSE_ALL_FIELDS,
    F_IPV6,
    F_USER_PASSWORD,
    F_PORT_ABOVE_65535,
    F_PORT_REJECT_GT_U32,
    F_PORT_REJECT_U64_OVERFLOW,
    F_PORT_REJECT_NON_DIGIT,
    F_PORT_LEADING_ZEROS,
    F_EMPTY_HOST,
    F_EMPTY_PORT,
    F_QUERY_WITHOUT_PATH,
    F_EMPTY_QUERY,
    F_REJECT_EMPTY,
    F_BUILDER_QS,
    F_BUILDER_PARAMS,
    F_BUILDER_PORT_10_DIGITS,
    F_BUILDER_REJECTS_BOTH_QUERIES,
    F_ENC_GREW,
    F_ENC_EXACT_WORST_CASE,
    F_ENC_PREFIX,
    F_ENC_ALL_ESCAPED,
    F_DEC_MIXED_CASE,
    F_DEC_MALFORMED,
    F_IT_SKIPPED_EMPTY,
    F_IT_MISSING_EQ,
    F_IT_EQ_IN_VALUE,
    F_IT_LIST_AGREES,
    F_LIST_TOO_SMALL,
    F_AMBIGUOUS,
    F_DEFECT_CLASS,
    F_LONG_SCHEME,
    F_NFLAGS
};
static const char *const s_flag_names[F_NFLAGS] = {
    "parse_all_fields_equal_generator",
    "ipv6_brackets_stripped",
    "userinfo_split_user_password",
    "port_above_65535_accepted",
    "port_above_u32_rejected",
    "port_u64_overflow_rejected",
    "port_non_digit_rejected",
    "port_leading_zeros",
    "empty_host",
    "empty_port_after_colon",
    "query_without_path",
    "empty_query_after_qmark",
    "nothing_after_scheme_rejected",
    "builder_roundtrip_query_string",
    "builder_roundtrip_param_list",
    "builder_port_10_digits",
    "builder_rejects_query_string_and_params",
    "encode_buffer_grew",
    "encode_exact_worst_case_capacity",
    "encode_prefix_preserved",
    "encode_every_byte_escaped",
    "decode_mixed_case_hex",
    "decode_malformed_rejected",
    "iterator_skipped_empty_pair",
    "iterator_pair_without_equals",
    "iterator_equals_inside_value",
    "iterator_and_list_agree",
    "list_form_static_list_too_small_refused",
    "ambiguous_host_colon_slash_weak_oracle",
    "regression_class_input_checked_strictly",
    "scheme_of_20_to_300_characters",
};

/* ------------------------------------------------------------------ component classes (DESIGN section 5, C13) */
static const char *const K_SCHEME[] = {NULL, "http", "https", "s3", "a"};
static const char *const K_USERINFO[] = {NULL, "u", "u:p", "u:", ":p", ""};
static const char *const K_HOST[] = {"example.com", "10.0.0.1", "[::1]", "[2001:db8::8:800:200c:417a]", "", "h"};
static const char *const K_PORT[] = {NULL,
                                     "",
                                     "0",
                                     "1",
                                     "80",
                                     "65535",
                                     "65536",
                                     "4294967295",
                                     "4294967296",
                                     "00000000000000000080",
                                     "18446744073709551615",
                                     "18446744073709551616",
                                     "99999999999999999999",
                                     "8a"};
static const char *const K_PATH[] = {"", "/", "/a/b", "//", "/a:b@c", "/x:/y", "/d/"};
static const char *const K_QUERY[] = {NULL,       "",     "k=v",   "k",        "k=",
                                      "=v",       "a=1&&b=2", "&a=1", "a=1&", "k=v=w",
                                      "a=1&b&c=&=d&&e==", "p=x/y", "r=http://e/", "a?b=c?"};
#define NOF(a) (sizeof(a) / sizeof((a)[0]))
#define NCROSS (NOF(K_SCHEME) * NOF(K_USERINFO) * NOF(K_HOST) * NOF(K_PORT) * NOF(K_PATH) * NOF(K_QUERY))
#define NSWEEP 256
#define PERMUTE 100003ULL /* prime, coprime to NCROSS = 2^4 3^2 5 7^3 */

/* Two input classes on which the pinned tree broke the property (both repaired in /repo by "fix:" commits).  They keep
 * their own stable keys and the strict oracle, so the checks are silent now and fire under these keys if a defect returns:
 *  - scheme absent and the first ':' of the text lies in the path or the query and is followed by '/':
 *    the scheme state took everything before that ':' (including '/' and '?') as the scheme
 *    ("/login?r=http://e/" -> scheme "/login?r=http", host "e"; "/x:/y" -> rejected).
 *  - path absent and the query contains '/': the authority state ended the authority at the first '/' even when a '?'
 *    preceded it, so the host swallowed the '?' and part of the query
 *    ("http://example.com?p=x/y" -> host "example.com?p=x", path "/y", no query).
 * At most two witnesses per key and process are reported; the counters regression_class_* say how many inputs of each
 * class were tried and how many of them mismatched. */
static const char KEY_COLON_SLASH[] = "C13:defect:colon-slash-in-path-or-query-taken-as-scheme";
static const char KEY_SLASH_QUERY[] = "C13:defect:slash-in-query-without-path-extends-authority";

/* ------------------------------------------------------------------ run-wide counters (flushed once) */
static uint64_t n_cross, n_sweep, n_random_uri, n_parse_ok, n_parse_rejected, n_cursors, n_builder, n_builder_rejected, n_enc_path,
    n_enc_param, n_dec, n_dec_rejected, n_it_params, n_it_queries, n_it_after_end, n_list_calls, n_ambiguous, n_defect_colon, n_defect_slash,
    n_defect_colon_bad, n_defect_slash_bad, n_py, n_dec_sweep, n_enc_start_lengths, n_random_inputs;
static unsigned s_defect_reported[2];
static FILE *s_py;
static uint64_t s_case;
#define PY_MAX 2500

static const char *printable(const void *src, size_t n) {
    static char ring[6][MAXS * 2 + 8];
    static unsigned ix;
    char *o = ring[ix++ % 6];
    size_t p = 0;
    const uint8_t *s = src;
    for (size_t i = 0; i < n && p + 6 < sizeof(ring[0]); ++i) {
        if (s[i] >= 0x20 && s[i] < 0x7f && s[i] != '\\') {
            o[p++] = (char)s[i];
        } else {
            p += (size_t)snprintf(o + p, 6, "\\x%02x", s[i]);
        }
    }
    o[p] = 0;
    return o;
}

static uint64_t fnv(const void *src, size_t n) {
    uint64_t h = 1469598103934665603ULL;
    const uint8_t *s = src;
    for (size_t i = 0; i < n; ++i) {
        h = (h ^ s[i]) * 1099511628211ULL;
    }
    return h;
}

static void py_hex(const uint8_t *p, size_t n) {
    fputc('"', s_py);
    for (size_t i = 0; i < n; ++i) {
        fprintf(s_py, "%02x", p[i]);
    }
    fputc('"', s_py);
}

static bool py_want(void) {
    return s_py && n_py < PY_MAX && ((s_case * 0x9E3779B97F4A7C15ULL) >> 61) == 0;
}

static void py_record(const char *kind, const uint8_t *in, size_t n, bool ok, const uint8_t *out, size_t m) {
    ++n_py;
    fprintf(s_py, "{\"k\":\"%s\",\"case\":%llu,\"in\":", kind, (unsigned long long)s_case);
    py_hex(in, n);
    fprintf(s_py, ",\"ok\":%s,\"out\":", ok ? "true" : "false");
    py_hex(out, ok ? m : 0);
    fputs("}\n", s_py);
}

/* ------------------------------------------------------------------ reference models */
static bool ref_unreserved(uint8_t c) {
    return (c >= 'A' && c <= 'Z') || (c >= 'a' && c <= 'z') || (c >= '0' && c <= '9') || c == '-' || c == '.' || c == '_' || c == '~';
}

static size_t ref_encode(bool path, const uint8_t *in, size_t n, uint8_t *out) {
    static const char HEX[] = "0123456789ABCDEF";
    size_t p = 0;
    for (size_t i = 0; i < n; ++i) {
        if (ref_unreserved(in[i]) || (path && in[i] == '/')) {
            out[p++] = in[i];
        } else {
            out[p++] = '%';
            out[p++] = (uint8_t)HEX[in[i] >> 4];
            out[p++] = (uint8_t)HEX[in[i] & 15];
        }
    }
    return p;
}

static int ref_hexval(uint8_t c) {
    if (c >= '0' && c <= '9') {
        return c - '0';
    }
    if (c >= 'a' && c <= 'f') {
        return c - 'a' + 10;
    }
    if (c >= 'A' && c <= 'F') {
        return c - 'A' + 10;
    }
    return -1;
}

/* returns false when a '%' is not followed by two hex digits */
static bool ref_decode(const uint8_t *in, size_t n, uint8_t *out, size_t *m, bool *mixed) {
    size_t p = 0;
    bool lower = false, upper = false;
    for (size_t i = 0; i < n; ++i) {
        if (in[i] != '%') {
            out[p++] = in[i];
            continue;
        }
        if (n - i < 3) {
            return false; /* fewer than two characters after the '%' */
        }
        int hi = ref_hexval(in[i + 1]), lo = ref_hexval(in[i + 2]);
        if (hi < 0 || lo < 0) {
            return false;
        }
        lower |= (in[i + 1] >= 'a') || (in[i + 2] >= 'a');
        upper |= (in[i + 1] >= 'A' && in[i + 1] <= 'F') || (in[i + 2] >= 'A' && in[i + 2] <= 'F');
        out[p++] = (uint8_t)(hi * 16 + lo);
        i += 2;
    }
    *m = p;
    if (mixed) {
        *mixed = lower && upper;
    }
    return true;
}

enum { PORT_OK, PORT_TOO_BIG, PORT_OVERFLOW64, PORT_BAD };
/* documented: the port field is uint32_t; upstream tests require ":4294967296" and ":s8443" to be rejected and the
 * code accepts everything up to 4294967295 (not only up to 65535), leading zeros included; ":" alone reads as 0. */
static int ref_port(const uint8_t *t, size_t n, uint32_t *val) {
    *val = 0;
    for (size_t i = 0; i < n; ++i) {
        if (t[i] < '0' || t[i] > '9') {
            return PORT_BAD;
        }
    }
    size_t i = 0;
    while (i < n && t[i] == '0') {
        ++i;
    }
    size_t nd = n - i;
    if (nd > 10) {
        bool over64 = nd > 20 || (nd == 20 && memcmp(t + i, "18446744073709551615", 20) > 0);
        return over64 ? PORT_OVERFLOW64 : PORT_TOO_BIG;
    }
    uint64_t v = 0;
    for (; i < n; ++i) {
        v = v * 10 + (uint64_t)(t[i] - '0');
    }
    if (v > 0xFFFFFFFFULL) {
        return PORT_TOO_BIG;
    }
    *val = (uint32_t)v;
    return PORT_OK;
}

struct rparam {
    size_t koff, klen, voff, vlen;
};
struct rsplit {
    size_t n;
    bool skipped_empty, missing_eq, eq_in_value;
    struct rparam p[MAXP];
};

/* non-empty '&'-separated pairs in order, first '=' splits, missing '=' gives an empty value */
static void ref_split(const uint8_t *q, size_t n, struct rsplit *out) {
    memset(out, 0, offsetof(struct rsplit, p));
    size_t i = 0;
    for (;;) {
        size_t j = i;
        while (j < n && q[j] != '&') {
            ++j;
        }
        if (j > i) {
            size_t e = i;
            while (e < j && q[e] != '=') {
                ++e;
            }
            struct rparam rp;
            rp.koff = i;
            rp.klen = e - i;
            if (e < j) {
                rp.voff = e + 1;
                rp.vlen = j - e - 1;
                for (size_t k = e + 1; k < j; ++k) {
                    out->eq_in_value |= q[k] == '=';
                }
            } else {
                rp.voff = j;
                rp.vlen = 0;
                out->missing_eq = true;
            }
            if (out->n < MAXP) {
                out->p[out->n] = rp;
            }
            ++out->n;
        } else if (n > 0) {
            out->skipped_empty = true;
        }
        if (j >= n) {
            break;
        }
        i = j + 1;
    }
}

/* ------------------------------------------------------------------ generator */
struct txt {
    const uint8_t *p;
    size_t n;
};
struct gen {
    bool has_scheme, has_userinfo, has_port, has_query, v6;
    struct txt scheme, userinfo, host, port, path, query;
    uint8_t str[MAXS];
    size_t len;
    size_t auth_off, auth_end, ui_off, host_off, colon_off, path_off, q_off;
    /* expectation */
    bool expect_fail, ambiguous, nothing;
    int port_class;
    uint32_t port_value;
    const char *defect;
    struct aws_byte_cursor w_scheme, w_authority, w_userinfo, w_user, w_password, w_host, w_path, w_query, w_pq;
};

static struct txt T(const char *s) {
    struct txt t = {(const uint8_t *)s, s ? strlen(s) : 0};
    return t;
}

static void g_put(struct gen *g, const void *p, size_t n) {
    if (g->len + n > MAXS) {
        fprintf(stderr, "mon: C13 generator overflow\n");
        exit(2);
    }
    if (n) {
        memcpy(g->str + g->len, p, n);
    }
    g->len += n;
}

static struct aws_byte_cursor cur(const uint8_t *p, size_t n) {
    struct aws_byte_cursor c = {n, (uint8_t *)(uintptr_t)p};
    return c;
}

/* assembles [scheme "://"] [userinfo "@"] host [":" port] [path] ["?" query] and derives the expectation from the
 * components (never from re-scanning the text, except for the two classification rules that are about the text) */
static void gen_finish(struct gen *g) {
    g->len = 0;
    if (g->has_scheme) {
        g_put(g, g->scheme.p, g->scheme.n);
        g_put(g, "://", 3);
    }
    g->auth_off = g->len;
    g->ui_off = g->len;
    if (g->has_userinfo) {
        g_put(g, g->userinfo.p, g->userinfo.n);
        g_put(g, "@", 1);
    }
    g->host_off = g->len;
    g_put(g, g->host.p, g->host.n);
    g->colon_off = g->len;
    if (g->has_port) {
        g_put(g, ":", 1);
        g_put(g, g->port.p, g->port.n);
    }
    g->auth_end = g->len;
    g->path_off = g->len;
    g_put(g, g->path.p, g->path.n);
    g->q_off = g->len;
    if (g->has_query) {
        g_put(g, "?", 1);
        g->q_off = g->len;
        g_put(g, g->query.p, g->query.n);
    }
    g->v6 = g->host.n >= 2 && g->host.p[0] == '[';

    const uint8_t *s = g->str;
    g->w_scheme = g->has_scheme ? cur(s, g->scheme.n) : cur(NULL, 0);
    g->w_authority = cur(s + g->auth_off, g->auth_end - g->auth_off);
    g->w_userinfo = g->has_userinfo ? cur(s + g->ui_off, g->userinfo.n) : cur(NULL, 0);
    g->w_user = g->w_userinfo;
    g->w_password = cur(NULL, 0);
    if (g->has_userinfo) {
        /* user/password split at the FIRST colon of the user-info component */
        for (size_t i = 0; i < g->userinfo.n; ++i) {
            if (g->userinfo.p[i] == ':') {
                g->w_user = cur(s + g->ui_off, i);
                g->w_password = cur(s + g->ui_off + i + 1, g->userinfo.n - i - 1);
                break;
            }
        }
    }
    /* host name is reported without the brackets of an IPv6 literal */
    g->w_host = g->v6 ? cur(s + g->host_off + 1, g->host.n - 2) : cur(s + g->host_off, g->host.n);
    g->w_path = cur(s + g->path_off, g->path.n);
    g->w_query = g->has_query ? cur(s + g->q_off, g->query.n) : cur(NULL, 0);
    g->w_pq = cur(s + g->path_off, g->len - g->path_off);

    g->port_class = PORT_OK;
    g->port_value = 0;
    if (g->has_port) {
        g->port_class = ref_port(g->port.p, g->port.n, &g->port_value);
    }
    /* documented (source): a text with nothing after the optional "scheme://" is malformed */
    g->nothing = !g->has_userinfo && !g->host.n && !g->has_port && !g->path.n && !g->has_query;
    g->expect_fail = g->port_class != PORT_OK || g->nothing;

    g->ambiguous = false;
    g->defect = NULL;
    if (!g->has_scheme) {
        const uint8_t *fc = memchr(s, ':', g->len);
        if (fc && (size_t)(fc - s) + 1 < g->len && fc[1] == '/') {
            size_t at = (size_t)(fc - s);
            if (at >= g->path_off) {
                g->defect = KEY_COLON_SLASH;
            } else {
                /* "host:/path" (empty port) without a scheme is syntactically "scheme:/path": genuinely ambiguous,
                 * only memory safety and containment are checked */
                g->ambiguous = true;
            }
        }
    }
    if (!g->defect && !g->ambiguous && !g->path.n && g->has_query && memchr(g->query.p, '/', g->query.n)) {
        g->defect = KEY_SLASH_QUERY;
    }
}

/* ------------------------------------------------------------------ comparison of a parsed object with the generator */
struct verdict {
    const char *first; /* first mismatching field */
    char text[1400];
    size_t len;
};

static void v_add(struct verdict *v, const char *field, const char *fmt, ...) __attribute__((format(printf, 3, 4)));
static void v_add(struct verdict *v, const char *field, const char *fmt, ...) {
    if (!v->first) {
        v->first = field;
    }
    if (v->len + 8 >= sizeof(v->text)) {
        return;
    }
    va_list ap;
    va_start(ap, fmt);
    int n = vsnprintf(v->text + v->len, sizeof(v->text) - v->len, fmt, ap);
    va_end(ap);
    if (n > 0) {
        v->len += (size_t)n;
        if (v->len >= sizeof(v->text)) {
            v->len = sizeof(v->text) - 1;
        }
    }
}

static bool contained(const struct aws_uri *u, const struct aws_byte_cursor *c) {
    if (c->len == 0) {
        return true; /* the empty view is allowed anywhere (DESIGN: "and is not the empty view") */
    }
    const uint8_t *b = u->uri_str.buffer;
    return b && c->ptr >= b && c->len <= u->uri_str.len && (size_t)(c->ptr - b) <= u->uri_str.len - c->len;
}

static void cmp_field(struct verdict *v, const struct aws_uri *u, const char *name, const struct aws_byte_cursor *got,
                      struct aws_byte_cursor want) {
    ++n_cursors;
    if (!contained(u, got)) {
        v_add(v, "containment", "%s: view of %zu bytes lies outside uri_str (%zu bytes, offset %lld); ", name, got->len, u->uri_str.len,
              (long long)(got->ptr - u->uri_str.buffer));
        return;
    }
    if (got->len != want.len || (want.len && memcmp(got->ptr, want.ptr, want.len))) {
        v_add(v, name, "%s: generator '%s', library '%s'; ", name, printable(want.ptr, want.len), printable(got->ptr, got->len));
    }
}

static void compare_uri(struct verdict *v, const struct gen *g, const struct aws_uri *u, bool trailing_qmark_ok) {
    v->first = NULL;
    v->len = 0;
    v->text[0] = 0;
    bool str_ok = u->uri_str.len == g->len && (g->len == 0 || (u->uri_str.buffer && !memcmp(u->uri_str.buffer, g->str, g->len)));
    struct aws_byte_cursor want_pq = g->w_pq;
    if (!str_ok && trailing_qmark_ok && u->uri_str.len == g->len + 1 && u->uri_str.buffer && !memcmp(u->uri_str.buffer, g->str, g->len) &&
        u->uri_str.buffer[g->len] == '?') {
        /* builder with an empty (non-NULL) parameter list: a lone trailing '?' may or may not be appended */
        str_ok = true;
        static uint8_t tmp[MAXS + 1];
        memcpy(tmp, g->str + g->path_off, g->len - g->path_off);
        tmp[g->len - g->path_off] = '?';
        want_pq = cur(tmp, g->len - g->path_off + 1);
    }
    if (!str_ok) {
        v_add(v, "uri_str", "uri_str: expected '%s', library holds '%s'; ", printable(g->str, g->len),
              printable(u->uri_str.buffer, u->uri_str.buffer ? u->uri_str.len : 0));
    }
    if (u->uri_str.len > u->uri_str.capacity) {
        v_add(v, "uri_str", "uri_str.len %zu > capacity %zu; ", u->uri_str.len, u->uri_str.capacity);
        return;
    }
    cmp_field(v, u, "scheme", aws_uri_scheme(u), g->w_scheme);
    cmp_field(v, u, "authority", aws_uri_authority(u), g->w_authority);
    cmp_field(v, u, "userinfo", &u->userinfo, g->w_userinfo);
    cmp_field(v, u, "user", &u->user, g->w_user);
    cmp_field(v, u, "password", &u->password, g->w_password);
    cmp_field(v, u, "host_name", aws_uri_host_name(u), g->w_host);
    if (aws_uri_port(u) != g->port_value) {
        v_add(v, "port", "port: generator %u, library %u; ", g->port_value, aws_uri_port(u));
    }
    cmp_field(v, u, "path", aws_uri_path(u), g->w_path);
    cmp_field(v, u, "query_string", aws_uri_query_string(u), g->w_query);
    cmp_field(v, u, "path_and_query", aws_uri_path_and_query(u), want_pq);
}

/* one violation per case and API; inputs of a regression class report under the class key, two witnesses per process */
static void report(const struct gen *g, const char *api, const char *field, const char *what) {
    char key[96];
    if (g->defect) {
        int d = g->defect == KEY_SLASH_QUERY;
        *(d ? &n_defect_slash_bad : &n_defect_colon_bad) += 1;
        if (s_defect_reported[d] >= 2) {
            return;
        }
        ++s_defect_reported[d];
        mon_violation(g->defect, "%s of '%s': %s", api, printable(g->str, g->len), what);
        return;
    }
    snprintf(key, sizeof(key), "C13:%s:%s", api, field);
    mon_violation(key, "%s of '%s': %s", api, printable(g->str, g->len), what);
}

static void observe_flags(const struct gen *g, bool accepted) {
    if (accepted) {
        mon_flag(F_PARSE_ALL_FIELDS);
        if (g->v6) {
            mon_flag(F_IPV6);
        }
        if (g->w_password.ptr && g->has_userinfo) {
            mon_flag(F_USER_PASSWORD);
        }
        if (g->port_value > 65535) {
            mon_flag(F_PORT_ABOVE_65535);
        }
        if (g->has_port && g->port.n > 1 && g->port.p[0] == '0') {
            mon_flag(F_PORT_LEADING_ZEROS);
        }
        if (!g->host.n) {
            mon_flag(F_EMPTY_HOST);
        }
        if (g->has_port && !g->port.n) {
            mon_flag(F_EMPTY_PORT);
        }
        if (g->has_query && !g->path.n) {
            mon_flag(F_QUERY_WITHOUT_PATH);
        }
        if (g->has_query && !g->query.n) {
            mon_flag(F_EMPTY_QUERY);
        }
    } else {
        if (g->port_class == PORT_TOO_BIG) {
            mon_flag(F_PORT_REJECT_GT_U32);
        } else if (g->port_class == PORT_OVERFLOW64) {
            mon_flag(F_PORT_REJECT_U64_OVERFLOW);
        } else if (g->port_class == PORT_BAD) {
            mon_flag(F_PORT_REJECT_NON_DIGIT);
        } else if (g->nothing) {
            mon_flag(F_REJECT_EMPTY);
        }
    }
}

/* ------------------------------------------------------------------ query iterator vs list vs reference */
static void check_query(struct aws_byte_cursor q, const uint8_t *text, size_t n, const struct aws_uri *uri, const char *ctx) {
    static struct rsplit rs;
    static struct aws_uri_param got[MAXP];
    ref_split(text, n, &rs);
    if (rs.n > MAXP) {
        return; /* generator keeps queries far below this */
    }
    ++n_it_queries;
    struct aws_uri_param param;
    AWS_ZERO_STRUCT(param);
    size_t cnt = 0, limit = n + 4;
    bool ok = true;
    for (;;) {
        bool more = uri ? aws_uri_query_string_next_param(uri, &param) : aws_query_string_next_param(q, &param);
        if (!more) {
            /* "If false is returned, there are no further params": asking again with the same in/out argument stays at the end */
            for (unsigned again = 1 + (unsigned)mon_below(&mon_case_rng, 2); again; --again) {
                bool more2 = uri ? aws_uri_query_string_next_param(uri, &param) : aws_query_string_next_param(q, &param);
                ++n_it_after_end;
                if (more2) {
                    mon_violation("C13:query:iterator-yields-after-end",
                                  "%s query '%s': after reporting the end (%zu parameters), another call yielded '%s'='%s'", ctx,
                                  printable(text, n), cnt, printable(param.key.ptr, param.key.len), printable(param.value.ptr, param.value.len));
                    return;
                }
            }
            break;
        }
        if (cnt >= limit) {
            mon_violation("C13:query:iterator-does-not-terminate", "%s query '%s': more than %zu parameters yielded", ctx, printable(text, n),
                          limit);
            return;
        }
        if (cnt < MAXP) {
            got[cnt] = param;
        }
        if (cnt < rs.n) {
            const struct rparam *r = &rs.p[cnt];
            /* views must lie inside the query string */
            bool inside = true;
            if (param.key.len) {
                inside &= q.ptr && param.key.ptr >= q.ptr && param.key.len <= q.len && (size_t)(param.key.ptr - q.ptr) <= q.len - param.key.len;
            }
            if (param.value.len) {
                inside &= q.ptr && param.value.ptr >= q.ptr && param.value.len <= q.len &&
                          (size_t)(param.value.ptr - q.ptr) <= q.len - param.value.len;
            }
            if (!inside) {
                mon_violation("C13:query:containment", "%s query '%s': parameter %zu has a view outside the query string", ctx,
                              printable(text, n), cnt);
                return;
            }
            bool same = param.key.len == r->klen && param.value.len == r->vlen && (!r->klen || !memcmp(param.key.ptr, text + r->koff, r->klen)) &&
                        (!r->vlen || !memcmp(param.value.ptr, text + r->voff, r->vlen));
            /* "each pair once": the views are the reference's occurrences, not merely equal text */
            bool same_place = (!r->klen || (size_t)(param.key.ptr - q.ptr) == r->koff) && (!r->vlen || (size_t)(param.value.ptr - q.ptr) == r->voff);
            if (!same) {
                mon_violation("C13:query:iterator-pair", "%s query '%s': parameter %zu is '%s'='%s', reference split gives '%s'='%s'", ctx,
                              printable(text, n), cnt, printable(param.key.ptr, param.key.len), printable(param.value.ptr, param.value.len),
                              printable(text + r->koff, r->klen), printable(text + r->voff, r->vlen));
                ok = false;
            } else if (!same_place) {
                mon_violation("C13:query:iterator-occurrence", "%s query '%s': parameter %zu has the right text but is the occurrence at offset "
                              "%lld/%lld, reference %zu/%zu", ctx, printable(text, n), cnt, (long long)(param.key.ptr - q.ptr),
                              (long long)(param.value.ptr - q.ptr), r->koff, r->voff);
                ok = false;
            }
        }
        ++cnt;
        ++n_it_params;
    }
    if (cnt != rs.n) {
        mon_violation("C13:query:iterator-count", "%s query '%s': iterator yielded %zu parameters, reference split %zu", ctx, printable(text, n),
                      cnt, rs.n);
        ok = false;
    }
    /* list form */
    struct aws_allocator *alloc = mon_guard_allocator();
    struct aws_array_list list;
    if (aws_array_list_init_dynamic(&list, alloc, (size_t)mon_below(&mon_case_rng, 4), sizeof(struct aws_uri_param))) {
        return;
    }
    ++n_list_calls;
    int rc = uri ? aws_uri_query_string_params(uri, &list) : aws_query_string_params(q, &list);
    size_t ln = aws_array_list_length(&list);
    if (rc != AWS_OP_SUCCESS) {
        mon_violation("C13:query:list-failed", "%s query '%s': list form failed (error %d)", ctx, printable(text, n), aws_last_error());
        ok = false;
    } else if (ln != cnt) {
        mon_violation("C13:query:list-vs-iterator", "%s query '%s': list form has %zu parameters, iterator yielded %zu", ctx, printable(text, n),
                      ln, cnt);
        ok = false;
    } else {
        for (size_t i = 0; i < ln && i < MAXP; ++i) {
            struct aws_uri_param lp;
            AWS_ZERO_STRUCT(lp);
            aws_array_list_get_at(&list, &lp, i);
            bool same = lp.key.len == got[i].key.len && lp.value.len == got[i].value.len && (!lp.key.len || lp.key.ptr == got[i].key.ptr) &&
                        (!lp.value.len || lp.value.ptr == got[i].value.ptr);
            if (!same) {
                mon_violation("C13:query:list-vs-iterator", "%s query '%s': list entry %zu '%s'='%s' differs from the iterator's '%s'='%s'", ctx,
                              printable(text, n), i, printable(lp.key.ptr, lp.key.len), printable(lp.value.ptr, lp.value.len),
                              printable(got[i].key.ptr, got[i].key.len), printable(got[i].value.ptr, got[i].value.len));
                ok = false;
                break;
            }
        }
    }
    aws_array_list_clean_up(&list);
    /* caller-provided list one entry too small: the list form must fail (documented: AWS_OP_ERR on failure), canaries intact */
    if (rs.n >= 1 && mon_chance(&mon_case_rng, 1, 4)) {
        size_t capn = rs.n - 1;
        void *store = mon_fence_new((capn ? capn : 1) * sizeof(struct aws_uri_param));
        struct aws_array_list sl;
        aws_array_list_init_static(&sl, store, capn ? capn : 1, sizeof(struct aws_uri_param));
        if (capn == 0) {
            /* a static list needs capacity >= 1: fill the single slot so that the first push has no room */
            struct aws_uri_param filler;
            AWS_ZERO_STRUCT(filler);
            aws_array_list_push_back(&sl, &filler);
        }
        rc = uri ? aws_uri_query_string_params(uri, &sl) : aws_query_string_params(q, &sl);
        if (rc == AWS_OP_SUCCESS) {
            mon_violation("C13:query:list-overfull-accepted", "%s query '%s': list form succeeded into a static list with room for %zu of %zu",
                          ctx, printable(text, n), capn, rs.n);
        } else {
            mon_flag(F_LIST_TOO_SMALL);
        }
        MON_CHECK(mon_fence_check(store) == 0, "C13:query:list-canary", "%s query '%s': canary around the caller's static list damaged", ctx,
                  printable(text, n));
        mon_fence_free(store);
    }
    if (ok) {
        if (rs.skipped_empty) {
            mon_flag(F_IT_SKIPPED_EMPTY);
        }
        if (rs.missing_eq) {
            mon_flag(F_IT_MISSING_EQ);
        }
        if (rs.eq_in_value) {
            mon_flag(F_IT_EQ_IN_VALUE);
        }
        if (rs.n) {
            mon_flag(F_IT_LIST_AGREES);
        }
    }
}

/* ------------------------------------------------------------------ parse */
static void leak_check(const struct mon_alloc_stats *st0, const char *what, const struct gen *g) {
    struct mon_alloc_stats st1;
    mon_guard_stats(&st1);
    if (st1.live_blocks != st0->live_blocks) {
        mon_violation("C13:leak", "%s of '%s': %lld guard blocks still live afterwards", what, printable(g->str, g->len),
                      (long long)(st1.live_blocks - st0->live_blocks));
    }
    if (st1.redzone_errors != st0->redzone_errors) {
        mon_violation("C13:redzone", "%s of '%s': red zone of a library allocation damaged", what, printable(g->str, g->len));
    }
}

static void parse_check(struct gen *g) {
    struct aws_allocator *alloc = mon_chance(&mon_case_rng, 1, 4) ? mon_guard_allocator_full() : mon_guard_allocator();
    struct mon_alloc_stats st0;
    mon_guard_stats(&st0);
    /* the caller's text lives in exactly g->len fenced bytes (poisoned under ASan on both sides) */
    uint8_t *in = mon_fence_new(g->len);
    if (g->len) {
        memcpy(in, g->str, g->len);
    }
    struct aws_byte_cursor in_cur = cur(in, g->len);
    struct aws_uri uri;
    memset(&uri, 0x5c, sizeof(uri));
    mon_poison_last_error(&mon_case_rng);
    int rc = aws_uri_init_parse(&uri, alloc, &in_cur);
    if (mon_sampling()) {
        mon_sample("parse '%s' -> %s%s%s; ", printable(g->str, g->len), rc ? "rejected" : "accepted", g->ambiguous ? " (ambiguous host:/)" : "",
                   g->defect ? " (regression class)" : "");
    }
    if (g->len && memcmp(in, g->str, g->len)) {
        mon_violation("C13:parse:input-modified", "parse of '%s' modified the caller's text", printable(g->str, g->len));
    }
    if (g->defect) {
        mon_flag(F_DEFECT_CLASS);
        *(g->defect == KEY_SLASH_QUERY ? &n_defect_slash : &n_defect_colon) += 1;
    }
    if (g->ambiguous) {
        /* weak oracle: either verdict; when accepted every view must lie inside the object's own text */
        ++n_ambiguous;
        mon_flag(F_AMBIGUOUS);
        if (rc == AWS_OP_SUCCESS) {
            const struct aws_byte_cursor *all[9] = {&uri.scheme, &uri.authority, &uri.userinfo, &uri.user, &uri.password, &uri.host_name,
                                                    &uri.path, &uri.query_string, &uri.path_and_query};
            for (int i = 0; i < 9; ++i) {
                ++n_cursors;
                if (!contained(&uri, all[i])) {
                    mon_violation("C13:parse:containment", "parse of '%s': view %d lies outside uri_str", printable(g->str, g->len), i);
                }
            }
            aws_uri_clean_up(&uri);
        }
        mon_fence_free(in);
        leak_check(&st0, "parse", g);
        return;
    }
    if (rc != AWS_OP_SUCCESS) {
        ++n_parse_rejected;
        if (!g->expect_fail) {
            char what[160];
            snprintf(what, sizeof(what), "rejected (error %d) although every component is well-formed", aws_last_error());
            report(g, "parse", "rejected", what);
        } else {
            observe_flags(g, false);
        }
        mon_fence_free(in);
        leak_check(&st0, "rejected parse", g);
        return;
    }
    ++n_parse_ok;
    if (g->expect_fail) {
        char what[200];
        snprintf(what, sizeof(what), "accepted (port reported as %u) although %s", aws_uri_port(&uri),
                 g->nothing ? "there is nothing after the scheme" : g->port_class == PORT_BAD ? "the port is not a decimal number"
                                                                                              : "the port does not fit the 32-bit port field");
        report(g, "parse", g->nothing ? "accepted-empty" : "accepted-bad-port", what);
        aws_uri_clean_up(&uri);
        mon_fence_free(in);
        leak_check(&st0, "parse", g);
        return;
    }
    static struct verdict v;
    compare_uri(&v, g, &uri, false);
    if (mon_sampling()) {
        mon_sample("[scheme='%s' userinfo='%s' host='%s' port=%u path='%s' query='%s'] ", printable(uri.scheme.ptr, uri.scheme.len),
                   printable(uri.userinfo.ptr, uri.userinfo.len), printable(uri.host_name.ptr, uri.host_name.len), uri.port,
                   printable(uri.path.ptr, uri.path.len), printable(uri.query_string.ptr, uri.query_string.len));
    }
    if (uri.uri_str.buffer == in) {
        v_add(&v, "uri_str", "uri_str aliases the caller's text instead of owning a copy; ");
    }
    if (v.first) {
        report(g, "parse", v.first, v.text);
    } else {
        observe_flags(g, true);
        /* the URI object must not depend on the caller's text any more */
        if (g->len) {
            memset(in, 0xDD, g->len);
        }
        compare_uri(&v, g, &uri, false);
        if (v.first) {
            report(g, "parse", "depends-on-caller-text", v.text);
        }
        check_query(uri.query_string, g->query.p, g->has_query ? g->query.n : 0, &uri, "uri");
    }
    aws_uri_clean_up(&uri);
    mon_fence_free(in);
    leak_check(&st0, "parse", g);
}

/* ------------------------------------------------------------------ builder */
static void builder_check(const struct gen *src, bool use_params) {
    if (src->port_class != PORT_OK) {
        return; /* not representable in the options */
    }
    static struct gen b;
    static struct rsplit rs;
    static uint8_t qbuf[MAXS], portbuf[16];
    memset(&b, 0, offsetof(struct gen, str));
    b.has_scheme = src->has_scheme;
    b.scheme = src->scheme;
    b.host = src->host; /* with brackets for IPv6 literals */
    b.path = src->path;
    /* documented (source): port 0 means "no port" and is not written */
    b.has_port = src->port_value != 0;
    b.port.p = portbuf;
    b.port.n = b.has_port ? (size_t)snprintf((char *)portbuf, sizeof(portbuf), "%u", src->port_value) : 0;
    bool empty_list = false;
    size_t nparams = 0;
    if (use_params) {
        ref_split(src->query.p, src->has_query ? src->query.n : 0, &rs);
        nparams = rs.n;
        size_t p = 0;
        for (size_t i = 0; i < rs.n; ++i) {
            if (i) {
                qbuf[p++] = '&';
            }
            memcpy(qbuf + p, src->query.p + rs.p[i].koff, rs.p[i].klen);
            p += rs.p[i].klen;
            qbuf[p++] = '=';
            memcpy(qbuf + p, src->query.p + rs.p[i].voff, rs.p[i].vlen);
            p += rs.p[i].vlen;
        }
        b.query.p = qbuf;
        b.query.n = p;
        b.has_query = rs.n > 0;
        empty_list = rs.n == 0;
    } else {
        /* documented: an empty query_string means "no query" ('?' is only written for a non-empty one) */
        b.query = src->query;
        b.has_query = src->has_query && src->query.n > 0;
    }
    gen_finish(&b);

    struct aws_allocator *alloc = mon_guard_allocator();
    struct mon_alloc_stats st0;
    mon_guard_stats(&st0);
    /* all option texts live in one fenced block; half of the time empty members are {NULL,0} */
    size_t need = b.scheme.n + b.host.n + b.path.n + b.query.n + 1;
    uint8_t *blk = mon_fence_new(need), *w = blk;
    bool null_empty = mon_chance(&mon_case_rng, 1, 2);
    struct aws_uri_builder_options opt;
    AWS_ZERO_STRUCT(opt);
#define PLACE(dst, t, present)                                                                                                             \
    do {                                                                                                                                   \
        if ((present) && (t).n) {                                                                                                          \
            memcpy(w, (t).p, (t).n);                                                                                                       \
            (dst) = cur(w, (t).n);                                                                                                         \
            w += (t).n;                                                                                                                    \
        } else {                                                                                                                           \
            (dst) = null_empty ? cur(NULL, 0) : cur(w, 0);                                                                                 \
        }                                                                                                                                  \
    } while (0)
    PLACE(opt.scheme, b.scheme, b.has_scheme);
    PLACE(opt.host_name, b.host, true);
    PLACE(opt.path, b.path, true);
    opt.port = src->port_value;
    struct aws_array_list plist;
    bool have_list = false;
    if (use_params) {
        if (aws_array_list_init_dynamic(&plist, alloc, nparams, sizeof(struct aws_uri_param))) {
            mon_fence_free(blk);
            return;
        }
        have_list = true;
        mon_guard_stats(&st0); /* the list's own storage stays live until the end of this function */
        uint8_t *qcopy = w;
        if (b.query.n) {
            memcpy(qcopy, b.query.p, b.query.n);
        }
        /* parameters are views into the canonical query text at the positions the reference split of IT gives */
        static struct rsplit rs2;
        ref_split(qcopy, b.query.n, &rs2);
        for (size_t i = 0; i < rs2.n; ++i) {
            struct aws_uri_param prm;
            prm.key = cur(qcopy + rs2.p[i].koff, rs2.p[i].klen);
            prm.value = cur(qcopy + rs2.p[i].voff, rs2.p[i].vlen);
            aws_array_list_push_back(&plist, &prm);
        }
        opt.query_params = &plist;
        opt.query_string = cur(NULL, 0);
    } else {
        PLACE(opt.query_string, b.query, b.has_query);
    }
#undef PLACE
    ++n_builder;
    struct aws_uri uri;
    memset(&uri, 0x5c, sizeof(uri));
    mon_poison_last_error(&mon_case_rng);
    int rc = aws_uri_init_from_builder_options(&uri, alloc, &opt);
    if (mon_sampling()) {
        mon_sample("build(%s) '%s' -> %s; ", use_params ? "params" : "query string", printable(b.str, b.len), rc ? "rejected" : "accepted");
    }
    if (b.defect) {
        mon_flag(F_DEFECT_CLASS);
        *(b.defect == KEY_SLASH_QUERY ? &n_defect_slash : &n_defect_colon) += 1;
    }
    const char *api = use_params ? "builder-params" : "builder";
    if (b.ambiguous) {
        /* cannot happen (the builder never writes an empty port) but stay weak if it does */
        if (rc == AWS_OP_SUCCESS) {
            aws_uri_clean_up(&uri);
        }
    } else if (rc != AWS_OP_SUCCESS) {
        ++n_builder_rejected;
        if (!b.nothing) {
            char what[160];
            snprintf(what, sizeof(what), "rejected (error %d) although the options describe a well-formed URI", aws_last_error());
            report(&b, api, "rejected", what);
        } else {
            mon_flag(F_REJECT_EMPTY);
        }
    } else if (b.nothing) {
        report(&b, api, "accepted-empty", "accepted although every option is empty");
        aws_uri_clean_up(&uri);
    } else {
        static struct verdict v;
        compare_uri(&v, &b, &uri, empty_list);
        if (v.first) {
            report(&b, api, v.first, v.text);
        } else {
            /* the object owns its text: wipe the option texts and compare again */
            memset(blk, 0xDD, need);
            compare_uri(&v, &b, &uri, empty_list);
            if (v.first) {
                report(&b, api, "depends-on-caller-text", v.text);
            } else {
                mon_flag(use_params ? F_BUILDER_PARAMS : F_BUILDER_QS);
                if (src->port_value >= 1000000000u) {
                    mon_flag(F_BUILDER_PORT_10_DIGITS);
                }
                if (b.v6) {
                    mon_flag(F_IPV6);
                }
                /* the parameters come back as they went in */
                check_query(uri.query_string, b.query.p, b.has_query ? b.query.n : 0, &uri, api);
            }
        }
        aws_uri_clean_up(&uri);
    }
    /* documented: query_string and query_params are exclusive */
    if (have_list && nparams && mon_chance(&mon_case_rng, 1, 8)) {
        uint8_t one = 'x';
        opt.query_string = cur(&one, 1);
        memset(&uri, 0x5c, sizeof(uri));
        rc = aws_uri_init_from_builder_options(&uri, alloc, &opt);
        if (rc == AWS_OP_SUCCESS) {
            mon_violation("C13:builder:both-queries-accepted", "builder accepted query_string together with query_params");
            aws_uri_clean_up(&uri);
        } else {
            mon_flag(F_BUILDER_REJECTS_BOTH_QUERIES);
        }
    }
    if (mon_fence_check(blk)) {
        mon_violation("C13:builder:options-canary", "builder wrote next to the caller's option texts ('%s')", printable(b.str, b.len));
    }
    leak_check(&st0, api, &b);
    if (have_list) {
        aws_array_list_clean_up(&plist);
    }
    mon_fence_free(blk);
}

static void uri_case(struct gen *g) {
    gen_finish(g);
    mon_fp(fnv(g->str, g->len));
    parse_check(g);
    if (mon_violations() >= 10) {
        return;
    }
    /* the builder has no user-info option: build from the remaining components */
    builder_check(g, false);
    builder_check(g, true);
}

/* ------------------------------------------------------------------ encoders / decoder */
static void decode_check(const uint8_t *text, size_t n, size_t prefix, size_t cap0, bool full_alloc);

static void encode_check(bool path, const uint8_t *data, size_t n, size_t prefix, size_t cap0, bool full_alloc) {
    static uint8_t want[3 * MAXENC + 8], pre[MAXENC];
    struct aws_allocator *alloc = full_alloc ? mon_guard_allocator_full() : mon_guard_allocator();
    struct mon_alloc_stats st0;
    mon_guard_stats(&st0);
    if (n > MAXENC || prefix > MAXENC) {
        return;
    }
    if (cap0 < prefix) {
        cap0 = prefix;
    }
    size_t wn = ref_encode(path, data, n, want);
    uint8_t *in = mon_fence_new(n);
    if (n) {
        memcpy(in, data, n);
    }
    struct aws_byte_buf buf;
    if (aws_byte_buf_init(&buf, alloc, cap0)) {
        mon_fence_free(in);
        return;
    }
    for (size_t i = 0; i < prefix; ++i) {
        pre[i] = (uint8_t)("%/aZ~\x00\xff 7"[i % 9] + (i / 9));
        buf.buffer[i] = pre[i];
    }
    buf.len = prefix;
    uint8_t *buf0 = buf.buffer;
    struct aws_byte_cursor c = cur(n ? in : (mon_chance(&mon_case_rng, 1, 2) ? NULL : in), n);
    mon_poison_last_error(&mon_case_rng);
    int rc = path ? aws_byte_buf_append_encoding_uri_path(&buf, &c) : aws_byte_buf_append_encoding_uri_param(&buf, &c);
    *(path ? &n_enc_path : &n_enc_param) += 1;
    const char *key = NULL;
    char what[300];
    what[0] = 0;
    if (rc != AWS_OP_SUCCESS) {
        key = "failed";
        snprintf(what, sizeof(what), "returned an error (%d)", aws_last_error());
    } else if (buf.len > buf.capacity) {
        key = "length";
        snprintf(what, sizeof(what), "len %zu > capacity %zu", buf.len, buf.capacity);
    } else if (buf.len != prefix + wn) {
        key = "length";
        snprintf(what, sizeof(what), "buffer length %zu, expected %zu + %zu", buf.len, prefix, wn);
    } else if (prefix && memcmp(buf.buffer, pre, prefix)) {
        key = "prefix-changed";
        snprintf(what, sizeof(what), "the %zu bytes already in the buffer changed", prefix);
    } else if (wn && memcmp(buf.buffer + prefix, want, wn)) {
        key = "bytes";
        size_t at = 0;
        while (at < wn && buf.buffer[prefix + at] == want[at]) {
            ++at;
        }
        snprintf(what, sizeof(what), "output differs from the reference at offset %zu: library '%s', reference '%s'", at,
                 printable(buf.buffer + prefix + at, wn - at > 12 ? 12 : wn - at), printable(want + at, wn - at > 12 ? 12 : wn - at));
    }
    if (!key && rc == AWS_OP_SUCCESS) {
        /* independent statement of the output alphabet (not via the reference encoder) */
        for (size_t i = prefix; i < buf.len; ++i) {
            uint8_t ch = buf.buffer[i];
            if (ch == '%') {
                bool up = i + 2 < buf.len && ((buf.buffer[i + 1] >= '0' && buf.buffer[i + 1] <= '9') || (buf.buffer[i + 1] >= 'A' && buf.buffer[i + 1] <= 'F')) &&
                          ((buf.buffer[i + 2] >= '0' && buf.buffer[i + 2] <= '9') || (buf.buffer[i + 2] >= 'A' && buf.buffer[i + 2] <= 'F'));
                if (!up) {
                    key = "alphabet";
                    snprintf(what, sizeof(what), "'%%' at output offset %zu is not followed by two upper-case hex digits", i - prefix);
                    break;
                }
                i += 2;
            } else if (!(ref_unreserved(ch) || (path && ch == '/'))) {
                key = "alphabet";
                snprintf(what, sizeof(what), "output byte 0x%02x at offset %zu is neither unreserved nor an escape", ch, i - prefix);
                break;
            }
        }
    }
    if (key) {
        char k[64];
        snprintf(k, sizeof(k), "C13:encode-%s:%s", path ? "path" : "param", key);
        mon_violation(k, "%s encoder, input %s (%zu bytes), buffer len %zu cap %zu: %s", path ? "path" : "param", mon_hex(data, n, 40), n, prefix,
                      cap0, what);
    } else {
        if (buf.buffer != buf0 || buf.capacity != cap0) {
            mon_flag(F_ENC_GREW);
        } else if (n && cap0 == prefix + 3 * n) {
            mon_flag(F_ENC_EXACT_WORST_CASE);
        }
        if (prefix) {
            mon_flag(F_ENC_PREFIX);
        }
        if (n && wn == 3 * n) {
            mon_flag(F_ENC_ALL_ESCAPED);
        }
        if (py_want()) {
            py_record(path ? "path" : "param", data, n, true, want, wn);
        }
    }
    aws_byte_buf_clean_up(&buf);
    mon_fence_free(in);
    struct mon_alloc_stats st1;
    mon_guard_stats(&st1);
    MON_CHECK(st1.live_blocks == st0.live_blocks, "C13:leak", "encoder left %lld guard blocks", (long long)(st1.live_blocks - st0.live_blocks));
    MON_CHECK(st1.redzone_errors == st0.redzone_errors, "C13:redzone", "%s encoder wrote outside the output buffer (input %zu bytes, len %zu cap %zu)",
              path ? "path" : "param", n, prefix, cap0);
    if (!key) {
        /* decode(encode(x)) == x, into a buffer with its own pre-existing content */
        static uint8_t enc[3 * MAXENC + 8];
        memcpy(enc, want, wn);
        size_t dp = (size_t)mon_below(&mon_case_rng, 9);
        decode_check(enc, wn, dp, mon_chance(&mon_case_rng, 1, 2) ? dp : dp + wn, full_alloc);
    }
}

static void decode_check(const uint8_t *text, size_t n, size_t prefix, size_t cap0, bool full_alloc) {
    static uint8_t want[3 * MAXENC + 8], pre[64];
    if (n > 3 * MAXENC || prefix > sizeof(pre)) {
        return;
    }
    struct aws_allocator *alloc = full_alloc ? mon_guard_allocator_full() : mon_guard_allocator();
    struct mon_alloc_stats st0;
    mon_guard_stats(&st0);
    if (cap0 < prefix) {
        cap0 = prefix;
    }
    size_t wn = 0;
    bool mixed = false;
    bool wok = ref_decode(text, n, want, &wn, &mixed);
    uint8_t *in = mon_fence_new(n);
    if (n) {
        memcpy(in, text, n);
    }
    struct aws_byte_buf buf;
    if (aws_byte_buf_init(&buf, alloc, cap0)) {
        mon_fence_free(in);
        return;
    }
    for (size_t i = 0; i < prefix; ++i) {
        pre[i] = (uint8_t)(0xC3 + 7 * i);
        buf.buffer[i] = pre[i];
    }
    buf.len = prefix;
    struct aws_byte_cursor c = cur(in, n);
    mon_poison_last_error(&mon_case_rng);
    int rc = aws_byte_buf_append_decoding_uri(&buf, &c);
    ++n_dec;
    const char *key = NULL;
    char what[300];
    what[0] = 0;
    if (buf.len > buf.capacity || buf.len < prefix) {
        key = "length";
        snprintf(what, sizeof(what), "len %zu outside [%zu, capacity %zu]", buf.len, prefix, buf.capacity);
    } else if (prefix && memcmp(buf.buffer, pre, prefix)) {
        key = "prefix-changed";
        snprintf(what, sizeof(what), "the %zu bytes already in the buffer changed", prefix);
    } else if (wok && rc != AWS_OP_SUCCESS) {
        key = "rejected-well-formed";
        snprintf(what, sizeof(what), "well-formed text rejected (error %d)", aws_last_error());
    } else if (!wok && rc == AWS_OP_SUCCESS) {
        key = "accepted-malformed";
        snprintf(what, sizeof(what), "text with a '%%' that is not followed by two hex digits was accepted; output '%s'",
                 printable(buf.buffer + prefix, buf.len - prefix > 16 ? 16 : buf.len - prefix));
    } else if (wok && (buf.len != prefix + wn || (wn && memcmp(buf.buffer + prefix, want, wn)))) {
        key = "bytes";
        snprintf(what, sizeof(what), "decoded %zu bytes %s, reference %zu bytes %s", buf.len - prefix,
                 mon_hex(buf.buffer + prefix, buf.len - prefix, 24), wn, mon_hex(want, wn, 24));
    }
    if (key) {
        char k[64];
        snprintf(k, sizeof(k), "C13:decode:%s", key);
        mon_violation(k, "decoder, input '%s' (%zu bytes), buffer len %zu cap %zu: %s", printable(text, n > 60 ? 60 : n), n, prefix, cap0, what);
    } else {
        if (!wok) {
            ++n_dec_rejected;
            mon_flag(F_DEC_MALFORMED);
        } else if (mixed) {
            mon_flag(F_DEC_MIXED_CASE);
        }
        if (py_want() && n <= 400) {
            py_record("dec", text, n, wok, want, wn);
        }
    }
    aws_byte_buf_clean_up(&buf);
    mon_fence_free(in);
    struct mon_alloc_stats st1;
    mon_guard_stats(&st1);
    MON_CHECK(st1.live_blocks == st0.live_blocks, "C13:leak", "decoder left %lld guard blocks", (long long)(st1.live_blocks - st0.live_blocks));
    MON_CHECK(st1.redzone_errors == st0.redzone_errors, "C13:redzone", "decoder wrote outside the output buffer (input %zu bytes, len %zu cap %zu)", n,
              prefix, cap0);
}

/* ------------------------------------------------------------------ the three kinds of cases */
static void cross_case(uint64_t c) {
    uint64_t ix = (c * PERMUTE) % NCROSS;
    static struct gen g;
    memset(&g, 0, offsetof(struct gen, str));
    size_t q = ix % NOF(K_QUERY);
    ix /= NOF(K_QUERY);
    size_t pa = ix % NOF(K_PATH);
    ix /= NOF(K_PATH);
    size_t po = ix % NOF(K_PORT);
    ix /= NOF(K_PORT);
    size_t h = ix % NOF(K_HOST);
    ix /= NOF(K_HOST);
    size_t ui = ix % NOF(K_USERINFO);
    ix /= NOF(K_USERINFO);
    size_t sc = ix % NOF(K_SCHEME);
    mon_fp(1);
    mon_fp(sc | ui << 8 | h << 16 | po << 24 | (uint64_t)pa << 32 | (uint64_t)q << 40);
    g.has_scheme = K_SCHEME[sc] != NULL;
    g.scheme = T(K_SCHEME[sc]);
    g.has_userinfo = K_USERINFO[ui] != NULL;
    g.userinfo = T(K_USERINFO[ui]);
    g.host = T(K_HOST[h]);
    g.has_port = K_PORT[po] != NULL;
    g.port = T(K_PORT[po]);
    g.path = T(K_PATH[pa]);
    g.has_query = K_QUERY[q] != NULL;
    g.query = T(K_QUERY[q]);
    ++n_cross;
    uri_case(&g);
}

static size_t rnd_text(struct mon_rng *r, uint8_t *out, size_t maxlen, const char *alphabet, const char *const *tokens, size_t ntokens) {
    size_t n = (size_t)mon_below(r, maxlen + 1), p = 0, na = strlen(alphabet);
    while (p < n) {
        if (ntokens && mon_chance(r, 1, 6)) {
            const char *t = tokens[mon_below(r, ntokens)];
            size_t tl = strlen(t);
            if (p + tl > maxlen) {
                break;
            }
            memcpy(out + p, t, tl);
            p += tl;
        } else {
            out[p++] = (uint8_t)alphabet[mon_below(r, na)];
        }
    }
    return p;
}

static void random_uri_case(void) {
    struct mon_rng *r = &mon_case_rng;
    static struct gen g;
    static uint8_t b_scheme[320], b_ui[40], b_host[64], b_port[40], b_path[80], b_query[80];
    static const char UNRES[] = "abcxyzABZ019-._~";
    static const char REG[] = "abcxyzABZ019-._~!$&'()*+,;=";
    static const char *const PCT[] = {"%41", "%2F", "%3a", "%25", "%20"};
    memset(&g, 0, offsetof(struct gen, str));
    mon_fp(2);
    ++n_random_uri;
    if (mon_chance(r, 3, 5)) {
        g.has_scheme = true;
        size_t n = 1 + rnd_text(r, b_scheme + 1, 6, "abchtps019+.-", NULL, 0);
        b_scheme[0] = (uint8_t)"ahswf"[mon_below(r, 5)];
        if (mon_chance(r, 1, 8)) {
            /* RFC 3986 puts no limit on the scheme: reverse-DNS style application schemes run to 70 characters and more */
            static const size_t LENS[] = {31, 32, 33, 39, 40, 41, 63, 64, 65, 72, 127, 128, 255, 256, 300};
            size_t want = mon_chance(r, 1, 2) ? LENS[mon_below(r, sizeof(LENS) / sizeof(LENS[0]))] : 20 + (size_t)mon_below(r, 280);
            for (n = 1; n < want; ++n) {
                b_scheme[n] = (uint8_t)"abcdefghijklmnopqrstuvwxyz0123456789+.-"[mon_below(r, 39)];
            }
            mon_flag(F_LONG_SCHEME);
        }
        g.scheme.p = b_scheme;
        g.scheme.n = n;
    }
    if (mon_chance(r, 2, 5)) {
        g.has_userinfo = true;
        g.userinfo.p = b_ui;
        g.userinfo.n = rnd_text(r, b_ui, 12, "abuserPW019-._~!$&'()*+,;=::", PCT, NOF(PCT));
    }
    unsigned hk = (unsigned)mon_below(r, 20);
    g.host.p = b_host;
    if (hk < 9) {
        g.host.n = rnd_text(r, b_host, 16, hk < 6 ? UNRES : REG, PCT, hk < 6 ? 0 : NOF(PCT));
    } else if (hk < 12) {
        g.host.n = (size_t)snprintf((char *)b_host, sizeof(b_host), "%u.%u.%u.%u", (unsigned)mon_below(r, 256), (unsigned)mon_below(r, 256),
                                    (unsigned)mon_below(r, 256), (unsigned)mon_below(r, 256));
    } else if (hk < 18) {
        size_t p = 0;
        b_host[p++] = '[';
        p += rnd_text(r, b_host + p, 30, "0123456789abcdefABCDEF::::..", NULL, 0);
        if (mon_chance(r, 1, 4)) {
            memcpy(b_host + p, "%25en0", 6);
            p += 6;
        }
        b_host[p++] = ']';
        g.host.n = p;
    } else {
        g.host.n = 0;
    }
    if (mon_chance(r, 3, 5)) {
        g.has_port = true;
        g.port.p = b_port;
        unsigned pk = (unsigned)mon_below(r, 20);
        size_t p = 0;
        if (pk < 2) {
            p = 0;
        } else if (pk < 9) {
            p = (size_t)snprintf((char *)b_port, sizeof(b_port), "%u", (unsigned)mon_below(r, 70000));
        } else if (pk < 15) {
            static const char *const EDGE[] = {"65535", "65536", "4294967294", "4294967295", "4294967296", "4294967297", "9999999999", "10000000000",
                                               "18446744073709551615", "18446744073709551616", "18446744073709551614", "42949672950", "429496729"};
            size_t z = mon_chance(r, 1, 3) ? (size_t)mon_below(r, 12) : 0;
            memset(b_port, '0', z);
            p = z + (size_t)snprintf((char *)b_port + z, sizeof(b_port) - z, "%s", EDGE[mon_below(r, NOF(EDGE))]);
        } else if (pk < 18) {
            p = 1 + (size_t)mon_below(r, 25);
            for (size_t i = 0; i < p; ++i) {
                b_port[i] = (uint8_t)('0' + mon_below(r, 10));
            }
        } else {
            static const char *const BAD[] = {"8a", "-1", "+80", " 80", "80 ", "0x50", "8.0", "\xef\xbc\x98", "80a", "a"};
            p = (size_t)snprintf((char *)b_port, sizeof(b_port), "%s", BAD[mon_below(r, NOF(BAD))]);
        }
        g.port.n = p;
    }
    if (mon_chance(r, 3, 4)) {
        b_path[0] = '/';
        g.path.p = b_path;
        g.path.n = 1 + rnd_text(r, b_path + 1, 24, mon_chance(r, 1, 4) ? "ab/:@/:" : "abcXYZ019-._~!$&'()*+,;=:@////", PCT, NOF(PCT));
    }
    if (mon_chance(r, 13, 20)) {
        g.has_query = true;
        g.query.p = b_query;
        g.query.n = rnd_text(r, b_query, 28, mon_chance(r, 1, 5) ? "ab=&:/?@" : "abk12===&&&&-._~+", PCT, NOF(PCT));
    }
    uri_case(&g);
}

static void random_encode_case(void) {
    struct mon_rng *r = &mon_case_rng;
    static uint8_t data[MAXENC];
    static const char ESCAPED[] = " %/?#[]@!$&'()*+,;=\"<>\\^`{|}\x7f\x80\xff";
    mon_fp(3);
    size_t n = mon_edge_size(r, mon_chance(r, 1, 8) ? MAXENC : 96);
    unsigned kind = (unsigned)mon_below(r, 6);
    for (size_t i = 0; i < n; ++i) {
        switch (kind) {
            case 0:
                data[i] = (uint8_t)mon_below(r, 256);
                break;
            case 1:
                data[i] = (uint8_t)"abcXYZ019-._~"[mon_below(r, 13)];
                break; /* nothing to escape */
            case 2:
                data[i] = (uint8_t)ESCAPED[mon_below(r, sizeof(ESCAPED))]; /* the terminating NUL is one of them */
                break; /* (nearly) everything escaped */
            case 3:
                data[i] = (uint8_t)"ab/ /%2F~-"[mon_below(r, 10)];
                break;
            case 4:
                data[i] = (uint8_t)(0x2c + mon_below(r, 0x54)); /* around the class boundaries , - . / 0 9 : @ A Z [ _ ` a z { ~ DEL */
                break;
            default:
                data[i] = (uint8_t)(mon_chance(r, 1, 2) ? 0xC0 + mon_below(r, 0x40) : 0x80 + mon_below(r, 0x40));
                break;
        }
    }
    size_t prefix = mon_chance(r, 1, 3) ? 0 : mon_edge_size(r, 64);
    static const int CAPK[] = {0, 1, 2, 3, 4, 5};
    for (int path = 0; path < 2; ++path) {
        size_t cap0;
        switch (CAPK[mon_below(r, 6)]) {
            case 0:
                cap0 = prefix;
                break;
            case 1:
                cap0 = prefix + n;
                break;
            case 2:
                cap0 = prefix + 3 * n;
                break;
            case 3:
                cap0 = prefix + 3 * n - (n ? 1 : 0);
                break;
            case 4:
                cap0 = prefix + 3 * n + 1;
                break;
            default:
                cap0 = prefix + (size_t)mon_below(r, 3 * n + 40);
                break;
        }
        mon_fp(n | prefix << 16 | (uint64_t)cap0 << 32);
        encode_check(path, data, n, prefix, cap0, mon_chance(r, 1, 3));
    }
    mon_fp(fnv(data, n));
}

static void random_decode_case(void) {
    struct mon_rng *r = &mon_case_rng;
    static uint8_t text[512];
    mon_fp(4);
    size_t n = 0, target = mon_edge_size(r, 120);
    static const char HEXMIX[] = "0123456789abcdefABCDEF";
    bool want_bad = mon_chance(r, 1, 2);
    while (n < target && n + 4 < sizeof(text)) {
        unsigned k = (unsigned)mon_below(r, 10);
        if (k < 4) {
            text[n++] = (uint8_t)"abcXYZ019-._~/+ "[mon_below(r, 16)];
        } else if (k < 8) {
            text[n++] = '%';
            text[n++] = (uint8_t)HEXMIX[mon_below(r, 22)];
            text[n++] = (uint8_t)HEXMIX[mon_below(r, 22)];
        } else if (k < 9) {
            text[n++] = (uint8_t)mon_below(r, 256);
            if (text[n - 1] == '%' && !want_bad) {
                text[n - 1] = '_';
            }
        } else if (want_bad) {
            static const char *const BAD[] = {"%", "%4", "%g0", "%0g", "%%", "% 41", "%4 ", "%\xff""f", "%0x", "%-1", "%G1", "%1`", "%@A", "%/0", "%:0"};
            const char *b = BAD[mon_below(r, NOF(BAD))];
            size_t bl = strlen(b);
            memcpy(text + n, b, bl);
            n += bl;
        }
    }
    if (want_bad && mon_chance(r, 1, 3) && n + 2 < sizeof(text)) {
        /* truncated escape at the very end */
        text[n++] = '%';
        if (mon_chance(r, 1, 2)) {
            text[n++] = (uint8_t)HEXMIX[mon_below(r, 22)];
        }
    }
    size_t prefix = (size_t)mon_below(r, 20);
    size_t cap0 = mon_chance(r, 1, 2) ? prefix : prefix + (size_t)mon_below(r, n + 8);
    mon_fp(n | prefix << 16 | (uint64_t)cap0 << 32);
    mon_fp(fnv(text, n));
    decode_check(text, n, prefix, cap0, mon_chance(r, 1, 3));
}

static void random_query_case(void) {
    struct mon_rng *r = &mon_case_rng;
    static uint8_t text[200];
    mon_fp(5);
    size_t n = mon_edge_size(r, mon_chance(r, 1, 6) ? 160 : 24);
    const char *alpha = mon_chance(r, 1, 3) ? "a=&" : mon_chance(r, 1, 2) ? "ab1=&&=%20" : "abck12-._~=&/?:@+%";
    size_t na = strlen(alpha);
    for (size_t i = 0; i < n; ++i) {
        text[i] = (uint8_t)alpha[mon_below(r, na)];
    }
    mon_fp(fnv(text, n));
    /* the caller's query text lives in exactly n fenced bytes; {NULL,0} for the empty one half of the time */
    uint8_t *in = mon_fence_new(n);
    if (n) {
        memcpy(in, text, n);
    }
    struct aws_byte_cursor q = cur((n || mon_chance(r, 1, 2)) ? in : NULL, n);
    check_query(q, text, n, NULL, "stand-alone");
    if (n && memcmp(in, text, n)) {
        mon_violation("C13:query:input-modified", "iteration modified the query text '%s'", printable(text, n));
    }
    mon_fence_free(in);
}

static void sweep_case(unsigned b) {
    struct mon_rng *r = &mon_case_rng;
    uint8_t one[1] = {(uint8_t)b};
    static uint8_t all[256], rep[17], mid[3];
    mon_fp(6);
    mon_fp(b);
    ++n_sweep;
    /* every output-buffer starting length 0..40, capacity exact at the start (growth) or exact for the worst case */
    for (size_t prefix = 0; prefix <= 40; ++prefix) {
        encode_check(true, one, 1, prefix, (prefix & 1) ? prefix : prefix + 3, false);
        encode_check(false, one, 1, prefix, (prefix & 1) ? prefix + 3 : prefix, (prefix % 5) == 0);
        n_enc_start_lengths += 2;
    }
    for (unsigned i = 0; i < 256; ++i) {
        all[i] = (uint8_t)(i + b);
    }
    memset(rep, (int)b, sizeof(rep));
    mid[0] = 'a';
    mid[1] = (uint8_t)b;
    mid[2] = '/';
    for (int path = 0; path < 2; ++path) {
        encode_check(path, all, 256, b % 7, (b % 7) + (path ? 256 : 0), false);
        encode_check(path, rep, sizeof(rep), 3, 3 + 3 * sizeof(rep), true);
        encode_check(path, mid, 3, 0, 0, false);
    }
    /* decoder: '%' b x for every x, bare and embedded; truncated forms */
    uint8_t t[8];
    for (unsigned x = 0; x < 256; ++x) {
        t[0] = '%';
        t[1] = (uint8_t)b;
        t[2] = (uint8_t)x;
        decode_check(t, 3, x % 5, (x % 5) + ((x & 8) ? 3 : 0), false);
        ++n_dec_sweep;
        if ((x & 3) == (b & 3)) {
            t[0] = 'p';
            t[1] = '%';
            t[2] = (uint8_t)x;
            t[3] = (uint8_t)b;
            t[4] = 'q';
            decode_check(t, 5, 0, 0, false);
            ++n_dec_sweep;
        }
    }
    t[0] = '%';
    t[1] = (uint8_t)b;
    decode_check(t, 2, 1, 1, false);
    t[0] = (uint8_t)b;
    t[1] = '%';
    decode_check(t, 2, 0, 2, false);
    decode_check(one, 1, 2, 2, false);
    (void)r;
}

int main(int argc, char **argv) {
    mon_init(argc, argv, "C13");
    aws_common_library_init(aws_default_allocator());
    for (int i = 0; i < F_NFLAGS; ++i) {
        mon_flag_name(i, s_flag_names[i]);
    }
    char path[4096];
    snprintf(path, sizeof(path), "%s/py.%d", mon_run.outdir, mon_run.slice);
    s_py = fopen(path, "w");
    long reps = mon_run.param[0] > 0 ? mon_run.param[0] : 1;
    uint64_t c;
    while (mon_next_case(&c)) {
        mon_case_begin(c);
        s_case = c;
        if (c < NCROSS) {
            cross_case(c);
        } else if (c < NCROSS + NSWEEP) {
            sweep_case((unsigned)(c - NCROSS));
        } else {
            /* --p0 = PRNG-derived inputs per case index (thorough tier: 8), all from this case's generator */
            for (long rep = 0; rep < reps && mon_violations() < 10; ++rep) {
                unsigned k = (unsigned)mon_below(&mon_case_rng, 20);
                if (k < 8) {
                    random_uri_case();
                } else if (k < 13) {
                    random_encode_case();
                } else if (k < 16) {
                    random_decode_case();
                } else {
                    random_query_case();
                }
                ++n_random_inputs;
            }
        }
        mon_case_end(mon_flag_count() >= 1);
    }
    if (s_py) {
        fclose(s_py);
    }
    struct mon_alloc_stats st;
    mon_guard_stats(&st);
    MON_CHECK(st.live_blocks == 0, "C13:leak", "%llu guard blocks live at the end of the run", (unsigned long long)st.live_blocks);
    mon_count("cross_product_cases", n_cross);
    mon_count("byte_value_sweep_cases", n_sweep);
    mon_count("random_inputs", n_random_inputs);
    mon_count("random_uri_cases", n_random_uri);
    mon_count("parse_accepted", n_parse_ok);
    mon_count("parse_rejected", n_parse_rejected);
    mon_count("component_views_checked", n_cursors);
    mon_count("builder_calls", n_builder);
    mon_count("builder_rejected", n_builder_rejected);
    mon_count("encode_path_calls", n_enc_path);
    mon_count("encode_param_calls", n_enc_param);
    mon_count("encode_start_length_sweep_calls", n_enc_start_lengths);
    mon_count("decode_calls", n_dec);
    mon_count("decode_rejected_malformed", n_dec_rejected);
    mon_count("decode_percent_pair_sweep_calls", n_dec_sweep);
    mon_count("query_strings_iterated", n_it_queries);
    mon_count("query_iterator_calls_after_end", n_it_after_end);
    mon_count("query_parameters_yielded", n_it_params);
    mon_count("query_list_form_calls", n_list_calls);
    mon_count("ambiguous_host_colon_slash_inputs", n_ambiguous);
    mon_count("regression_class_colon_slash_inputs", n_defect_colon);
    mon_count("regression_class_slash_in_query_inputs", n_defect_slash);
    mon_count("regression_class_colon_slash_mismatches", n_defect_colon_bad);
    mon_count("regression_class_slash_in_query_mismatches", n_defect_slash_bad);
    mon_count("python_sample_records", n_py);
    return mon_finish();
}
