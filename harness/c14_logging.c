/*
 * C14 - logging (DESIGN.md section 5, C14)
 *   --mode thr    threaded scenarios: sender threads -> default formatter -> foreground/background channel ->
 *                 recording writer (public vtable); writer-log checker: exactly-once, per-thread order, exact
 *                 line format and payload, filtered calls produce nothing, no write after clean-up, balance
 *   --mode trunc  single-threaded truncation sweep: no-alloc logger over open_memstream with messages around the
 *                 8192-byte line buffer, and aws_format_standard_log_line over fenced buffers of 2..300 bytes
 */
#include "mon.h"
#include "perturb.h"

#include <aws/common/common.h>
#include <aws/common/date_time.h>
#include <aws/common/log_channel.h>
#include <aws/common/log_formatter.h>
#include <aws/common/log_writer.h>
#include <aws/common/logging.h>
#include <aws/common/string.h>
#include <aws/common/thread.h>

#include <inttypes.h>
#include <pthread.h>
#include <sched.h>
#include <stdlib.h>
#include <errno.h>
#include <time.h>
#include <wchar.h>

enum { F_BACKGROUND, F_FOREGROUND, F_MULTI_SENDER, F_LONG_MESSAGE, F_FILTERED_CALLS, F_LEVEL_CHANGE, F_EMPTY_MESSAGE, F_SHUTDOWN_WITH_BACKLOG,
       F_TRUNCATED_NOALLOC, F_TRUNCATED_DIRECT, F_EXACT_FIT, F_LEVEL_NONE, F_DEEP_BACKLOG, F_WRITER_ERRORS, F_LONG_SUBJECT, F_STD_BY_NAME, F_STD_BY_FILE, F_NOALLOC_WRITE_FAILED, F_UNFORMATTABLE, F_WRITER_LOGS_ITSELF };

/* ================================================================== recording writer */
#define MAX_REC 4096
#define ARENA_SIZE (24u << 20)

struct rec {
    uint64_t t;      /* logical time of the write */
    uint64_t thread; /* pthread_self of the writing thread */
    size_t off, len;
};
static struct rec s_rec[MAX_REC];
static uint64_t s_nrec;
static uint8_t *s_arena;
static uint64_t s_arena_used;
static uint64_t s_rec_overflow;
static uint64_t s_in_writer, s_writer_overlaps;
static size_t s_plain_last_len; /* plain on purpose, see writer_write */
static int s_writer_stall, s_writer_gate, s_writer_fails;
static uint64_t s_writer_errors;
/* a writer that logs itself (a "rotated the file" note): in some background scenarios every fifth write sends one follow-up
 * line through the same channel, from the logger thread, also while clean-up is already waiting for that thread. The
 * channel is still running then (it only stops once its queue is empty), so the line has to reach the writer as well. */
static struct aws_log_channel *s_echo_channel;
static uint64_t s_echo_sent, s_echo_refused;
#define ECHO_PREFIX "ECHO from the writer after record "

static int writer_write(struct aws_log_writer *writer, const struct aws_string *output) {
    (void)writer;
    /* deliberately no lock of its own: the channel must serialise writers (foreground mutex / single background
     * thread); indices are claimed atomically so that a broken channel cannot corrupt the monitor itself */
    /* the channel promises one writer call at a time: count overlapping calls (any build), and touch a plain
     * variable so that ThreadSanitizer reports unserialised calls as the data race they would be in a real writer */
    if (__atomic_fetch_add(&s_in_writer, 1, __ATOMIC_RELAXED) != 0) {
        __atomic_fetch_add(&s_writer_overlaps, 1, __ATOMIC_RELAXED);
    }
    s_plain_last_len = output->len;
    if (__atomic_load_n(&s_writer_stall, __ATOMIC_RELAXED)) {
        /* hostile but legal writer: the first write blocks until the senders are done, so that clean-up meets a deep
         * backlog ("clean-up flushes everything already accepted") */
        for (int spins = 0; spins < 400000 && !__atomic_load_n(&s_writer_gate, __ATOMIC_ACQUIRE); ++spins) {
            struct timespec ts = {0, 50000};
            nanosleep(&ts, NULL);
        }
    }
    for (volatile int spin = 0; spin < 200; ++spin) {
    }
    uint64_t i = __atomic_fetch_add(&s_nrec, 1, __ATOMIC_RELAXED);
    uint64_t off = __atomic_fetch_add(&s_arena_used, output->len, __ATOMIC_RELAXED);
    if (i >= MAX_REC || off + output->len > ARENA_SIZE) {
        __atomic_fetch_add(&s_rec_overflow, 1, __ATOMIC_RELAXED);
        __atomic_fetch_sub(&s_in_writer, 1, __ATOMIC_RELAXED);
        return AWS_OP_SUCCESS;
    }
    s_rec[i].t = mon_ev_now();
    s_rec[i].thread = (uint64_t)(uintptr_t)pthread_self();
    s_rec[i].off = (size_t)off;
    s_rec[i].len = output->len;
    memcpy(s_arena + off, aws_string_bytes(output), output->len);
    __atomic_fetch_sub(&s_in_writer, 1, __ATOMIC_RELAXED);
    struct aws_log_channel *echo = __atomic_load_n(&s_echo_channel, __ATOMIC_ACQUIRE);
    if (echo && i % 5 == 2 && (output->len < sizeof(ECHO_PREFIX) || memcmp(aws_string_bytes(output), ECHO_PREFIX, sizeof(ECHO_PREFIX) - 1))) {
        char note[96];
        snprintf(note, sizeof(note), ECHO_PREFIX "%llu\n", (unsigned long long)i);
        struct aws_string *line = aws_string_new_from_c_str(mon_guard_allocator(), note);
        if (echo->vtable->send(echo, line)) {
            aws_string_destroy(line);
            __atomic_fetch_add(&s_echo_refused, 1, __ATOMIC_RELAXED);
        } else {
            __atomic_fetch_add(&s_echo_sent, 1, __ATOMIC_RELAXED);
        }
    }
    /* a writer may fail (disk full ...): in some scenarios every 7th write reports an error. The line has reached
     * the writer all the same; whatever the channel does with the result, each line string must still be destroyed
     * exactly once (guard allocator / ASan / balance) */
    if (__atomic_load_n(&s_writer_fails, __ATOMIC_RELAXED) && i % 7 == 3) {
        __atomic_fetch_add(&s_writer_errors, 1, __ATOMIC_RELAXED);
        return aws_raise_error(AWS_ERROR_FILE_WRITE_FAILURE);
    }
    return AWS_OP_SUCCESS;
}

static void writer_clean_up(struct aws_log_writer *writer) {
    (void)writer;
}

static struct aws_log_writer_vtable s_writer_vtable = {.write = writer_write, .clean_up = writer_clean_up};

/* ================================================================== threaded scenarios */
#define MAX_SENDERS 8
#define MAX_MSGS 400

/* the library's own subjects plus subjects registered by the harness (package slot 30) whose names have 1..300
 * characters: the line prefix has no fixed size */
#define N_LIB_SUBJECTS 10
#define N_OWN_SUBJECTS 14
#define N_SUBJECTS (N_LIB_SUBJECTS + N_OWN_SUBJECTS)
#define OWN_PACKAGE_ID 30
static aws_log_subject_t SUBJECTS[N_SUBJECTS] = {AWS_LS_COMMON_GENERAL, AWS_LS_COMMON_TASK_SCHEDULER, AWS_LS_COMMON_THREAD, AWS_LS_COMMON_MEMTRACE,
                                                 AWS_LS_COMMON_XML_PARSER, AWS_LS_COMMON_IO, AWS_LS_COMMON_BUS, AWS_LS_COMMON_TEST, AWS_LS_COMMON_JSON_PARSER,
                                                 AWS_LS_COMMON_CBOR};
static const size_t OWN_NAME_LEN[N_OWN_SUBJECTS] = {1, 30, 60, 78, 79, 80, 87, 88, 89, 92, 93, 128, 200, 300};
static char s_own_names[N_OWN_SUBJECTS][304];
static struct aws_log_subject_info s_own_infos[N_OWN_SUBJECTS];
static struct aws_log_subject_info_list s_own_list = {s_own_infos, N_OWN_SUBJECTS};

static void register_own_subjects(void) {
    for (int i = 0; i < N_OWN_SUBJECTS; ++i) {
        size_t l = OWN_NAME_LEN[i];
        for (size_t k = 0; k < l; ++k) {
            s_own_names[i][k] = (char)("verif-subject-name_0123456789abcdef"[k % 35]);
        }
        s_own_names[i][0] = (char)('A' + i);
        s_own_names[i][l] = 0;
        s_own_infos[i].subject_id = AWS_LOG_SUBJECT_BEGIN_RANGE(OWN_PACKAGE_ID) + (aws_log_subject_t)i;
        s_own_infos[i].subject_name = s_own_names[i];
        s_own_infos[i].subject_description = "subject registered by the C14 harness";
        SUBJECTS[N_LIB_SUBJECTS + i] = s_own_infos[i].subject_id;
    }
    aws_register_log_subject_info_list(&s_own_list);
}

struct msg {
    int level;   /* AWS_LL_* */
    int subject; /* index into SUBJECTS */
    int shape;
    size_t plen;
    int phase;
    char *expected; /* formatted user content, computed by the sender with snprintf */
    size_t expected_len;
    int seen; /* checker */
};

struct sender {
    int idx;
    int nmsgs;
    struct msg msgs[MAX_MSGS];
    char tid_repr[AWS_THREAD_ID_T_REPR_BUFSZ];
    uint64_t pthread_id;
    uint32_t pause_mask;
    uint64_t seed;
};

static struct {
    struct sender s[MAX_SENDERS];
    int nsenders;
    int nphases;
    int phase_level[4];
    pthread_barrier_t barrier;
    struct aws_logger logger;
    enum aws_date_format date_format;
    time_t wall_start; /* wall clock before the first log call of the scenario */
} T;

static char *make_payload(int sender, int n, size_t plen, uint64_t seed) {
    /* T<sender>-<n>-<len>:<pattern> ; pattern avoids NUL and newline, includes '%' and spaces */
    char head[64];
    int hl = snprintf(head, sizeof(head), "T%d-%d-%zu:", sender, n, plen);
    char *p = malloc((size_t)hl + plen + 1);
    memcpy(p, head, (size_t)hl);
    static const char alphabet[] = "abcdefghijklmnopqrstuvwxyzABCDEFGHIJKLMNOPQRSTUVWXYZ0123456789 %[]-=_.,:;!?/\\\"'";
    uint64_t x = seed ^ ((uint64_t)sender << 32) ^ (uint64_t)n;
    for (size_t i = 0; i < plen; ++i) {
        x = x * 6364136223846793005ULL + 1442695040888963407ULL;
        p[hl + i] = alphabet[(x >> 33) % (sizeof(alphabet) - 1)];
    }
    p[hl + plen] = 0;
    return p;
}

#define LOG_AT(level_, subj_, ...)                                                                                                                   \
    do {                                                                                                                                             \
        switch (level_) {                                                                                                                            \
            case AWS_LL_FATAL:                                                                                                                       \
                AWS_LOGF_FATAL(subj_, __VA_ARGS__);                                                                                                  \
                break;                                                                                                                               \
            case AWS_LL_ERROR:                                                                                                                       \
                AWS_LOGF_ERROR(subj_, __VA_ARGS__);                                                                                                  \
                break;                                                                                                                               \
            case AWS_LL_WARN:                                                                                                                        \
                AWS_LOGF_WARN(subj_, __VA_ARGS__);                                                                                                   \
                break;                                                                                                                               \
            case AWS_LL_INFO:                                                                                                                        \
                AWS_LOGF_INFO(subj_, __VA_ARGS__);                                                                                                   \
                break;                                                                                                                               \
            case AWS_LL_DEBUG:                                                                                                                       \
                AWS_LOGF_DEBUG(subj_, __VA_ARGS__);                                                                                                  \
                break;                                                                                                                               \
            default:                                                                                                                                 \
                AWS_LOGF_TRACE(subj_, __VA_ARGS__);                                                                                                  \
                break;                                                                                                                               \
        }                                                                                                                                            \
    } while (0)

static void send_one(struct sender *s, int n) {
    struct msg *m = &s->msgs[n];
    char *payload = make_payload(s->idx, n, m->plen, s->seed);
    size_t total = strlen(payload);
    aws_log_subject_t subj = SUBJECTS[m->subject];
    size_t cap = total + 128;
    m->expected = malloc(cap);
    uint64_t big = 0xFEDCBA9876543210ULL ^ (uint64_t)n;
    switch (m->shape) {
        case 0:
            m->expected_len = (size_t)snprintf(m->expected, cap, "%s", payload);
            LOG_AT(m->level, subj, "%s", payload);
            break;
        case 1:
            m->expected_len = (size_t)snprintf(m->expected, cap, "%.*s", (int)total, payload);
            LOG_AT(m->level, subj, "%.*s", (int)total, payload);
            break;
        case 2:
            m->expected_len = (size_t)snprintf(m->expected, cap, "%s|%d|%zu|%" PRIu64 "|%p|100%%", payload, n, total, big, (void *)s);
            LOG_AT(m->level, subj, "%s|%d|%zu|%" PRIu64 "|%p|100%%", payload, n, total, big, (void *)s);
            break;
        case 4:
            /* a call whose message cannot be formatted: %ls with characters the C locale cannot represent makes vsnprintf
             * fail. The call reports an error, no line is produced, and the line string must be destroyed exactly once. */
            m->expected_len = 0;
            m->expected[0] = 0;
            LOG_AT(m->level, subj, "%s %ls", payload, L"caf\u00e9 \u4e16\u754c");
            break;
        default: {
            size_t half = total / 2;
            char *second = payload + half;
            m->expected_len = (size_t)snprintf(m->expected, cap, "%.*s%s", (int)half, payload, second);
            LOG_AT(m->level, subj, "%.*s%s", (int)half, payload, second);
            break;
        }
    }
    free(payload);
}

static void *sender_main(void *arg) {
    struct sender *s = arg;
    perturb_bind((unsigned)(1 + s->idx));
    s->pthread_id = (uint64_t)(uintptr_t)pthread_self();
    aws_thread_id_t_to_string(aws_thread_current_thread_id(), s->tid_repr, sizeof(s->tid_repr));
    int n = 0;
    for (int ph = 0; ph < T.nphases; ++ph) {
        for (; n < s->nmsgs && s->msgs[n].phase == ph; ++n) {
            send_one(s, n);
            if ((s->pause_mask >> (n & 31)) & 1) {
                sched_yield();
            }
        }
        if (ph + 1 < T.nphases) {
            pthread_barrier_wait(&T.barrier); /* everyone finished phase ph */
            pthread_barrier_wait(&T.barrier); /* main changed the level */
        }
    }
    return NULL;
}

static const char *level_name(int level) {
    const char *s = NULL;
    aws_log_level_to_string((enum aws_log_level)level, &s);
    return s ? s : "?";
}

/* parses one recorded line; returns false and reports when malformed */
static bool check_line(const uint8_t *line, size_t len, size_t rec_idx, int *out_sender, int *out_n) {
    *out_sender = -1;
    *out_n = -1;
    if (len == 0 || line[len - 1] != '\n') {
        mon_violation("C14:line-not-newline-terminated", "record %zu (%zu bytes) does not end in a newline: ...%s", rec_idx, len,
                      mon_hex(line + (len > 24 ? len - 24 : 0), len > 24 ? 24 : len, 24));
        return false;
    }
    if (memchr(line, 0, len)) {
        mon_violation("C14:line-contains-nul", "record %zu (%zu bytes) contains a NUL byte", rec_idx, len);
        return false;
    }
    if (memchr(line, '\n', len - 1)) {
        mon_violation("C14:line-inner-newline", "record %zu contains a newline before its end (two lines glued or torn)", rec_idx);
        return false;
    }
    /* [LEVEL] [timestamp] [tid] [subject] - payload */
    const char *p = (const char *)line;
    const char *end = p + len - 1;
    if (*p != '[') {
        goto bad;
    }
    const char *q = memchr(p, ']', (size_t)(end - p));
    if (!q) {
        goto bad;
    }
    char level[16] = {0};
    if ((size_t)(q - p - 1) >= sizeof(level)) {
        goto bad;
    }
    memcpy(level, p + 1, (size_t)(q - p - 1));
    p = q + 1;
    if (end - p < 2 || p[0] != ' ' || p[1] != '[') {
        goto bad;
    }
    p += 2;
    q = memchr(p, ']', (size_t)(end - p));
    if (!q) {
        goto bad;
    }
    /* timestamp in the formatter's date format: ISO 8601 YYYY-MM-DDTHH:MM:SSZ, ISO 8601 basic YYYYMMDDTHHMMSSZ, or
     * RFC 822 'Www, DD Mon YYYY HH:MM:SS GMT' */
    size_t tsl = (size_t)(q - p);
    bool ts_ok;
    switch (T.date_format) {
        case AWS_DATE_FORMAT_ISO_8601_BASIC:
            ts_ok = tsl == 16 && p[8] == 'T' && p[15] == 'Z';
            break;
        case AWS_DATE_FORMAT_RFC822:
            ts_ok = tsl == 29 && p[3] == ',' && p[4] == ' ' && p[7] == ' ' && p[11] == ' ' && p[16] == ' ' && p[19] == ':' && p[22] == ':' &&
                    !memcmp(p + 25, " GMT", 4);
            break;
        default:
            ts_ok = tsl == 20 && p[4] == '-' && p[7] == '-' && p[10] == 'T' && p[13] == ':' && p[16] == ':' && p[19] == 'Z';
            break;
    }
    if (!ts_ok) {
        mon_violation("C14:line-format:timestamp", "record %zu: timestamp field '%.*s' does not have the shape of date format %d", rec_idx, (int)tsl, p,
                      (int)T.date_format);
        return false;
    }
    {
        /* the stamp is labelled UTC ('Z' / 'GMT'): read as UTC it must be the time of the call, whatever TZ the process runs in */
        struct tm tm;
        memset(&tm, 0, sizeof(tm));
        int Y = 0, Mo = 0, D = 0, h = 0, mi = 0, se = 0;
        bool dec = false;
        char mon[4] = {0};
        if (T.date_format == AWS_DATE_FORMAT_ISO_8601_BASIC) {
            dec = sscanf(p, "%4d%2d%2dT%2d%2d%2dZ", &Y, &Mo, &D, &h, &mi, &se) == 6;
        } else if (T.date_format == AWS_DATE_FORMAT_RFC822) {
            static const char *const MON[] = {"Jan", "Feb", "Mar", "Apr", "May", "Jun", "Jul", "Aug", "Sep", "Oct", "Nov", "Dec"};
            dec = sscanf(p + 5, "%2d %3s %4d %2d:%2d:%2d", &D, mon, &Y, &h, &mi, &se) == 6;
            for (int k = 0; dec && k < 12; ++k) {
                if (!strcmp(mon, MON[k])) {
                    Mo = k + 1;
                }
            }
        } else {
            dec = sscanf(p, "%4d-%2d-%2dT%2d:%2d:%2dZ", &Y, &Mo, &D, &h, &mi, &se) == 6;
        }
        tm.tm_year = Y - 1900;
        tm.tm_mon = Mo - 1;
        tm.tm_mday = D;
        tm.tm_hour = h;
        tm.tm_min = mi;
        tm.tm_sec = se;
        time_t stamp = dec && Mo ? timegm(&tm) : (time_t)-1;
        time_t now = time(NULL);
        if (stamp == (time_t)-1 || stamp < T.wall_start - 2 || stamp > now + 2) {
            mon_violation("C14:line-format:timestamp-value",
                          "record %zu: timestamp field '%.*s' read as UTC is %lld, the call was made between %lld and %lld (UTC seconds; process TZ='%s')", rec_idx,
                          (int)tsl, p, (long long)stamp, (long long)T.wall_start, (long long)now, getenv("TZ") ? getenv("TZ") : "");
        }
    }
    p = q + 1;
    if (end - p < 2 || p[0] != ' ' || p[1] != '[') {
        goto bad;
    }
    p += 2;
    q = memchr(p, ']', (size_t)(end - p));
    if (!q) {
        goto bad;
    }
    const char *tid = p;
    size_t tidl = (size_t)(q - p);
    p = q + 1;
    if (end - p < 2 || p[0] != ' ' || p[1] != '[') {
        goto bad;
    }
    p += 2;
    q = memchr(p, ']', (size_t)(end - p));
    if (!q) {
        goto bad;
    }
    const char *subj = p;
    size_t subjl = (size_t)(q - p);
    p = q + 1;
    if (end - p < 3 || memcmp(p, " - ", 3)) {
        goto bad;
    }
    p += 3;
    /* payload starts with T<sender>-<n>- */
    int sender = -1, n = -1;
    if (sscanf(p, "T%d-%d-", &sender, &n) != 2 || sender < 0 || sender >= T.nsenders || n < 0 || n >= T.s[sender].nmsgs) {
        mon_violation("C14:line-unknown-payload", "record %zu: payload does not identify a call: '%.40s'", rec_idx, p);
        return false;
    }
    struct sender *s = &T.s[sender];
    struct msg *m = &s->msgs[n];
    *out_sender = sender;
    *out_n = n;
    if (strcmp(level, level_name(m->level))) {
        mon_violation("C14:line-format:level", "record %zu: level field '%s', the call used %s", rec_idx, level, level_name(m->level));
    }
    if (tidl != strlen(s->tid_repr) || memcmp(tid, s->tid_repr, tidl)) {
        mon_violation("C14:line-format:thread-id", "record %zu: thread-id field '%.*s', the calling thread is '%s'", rec_idx, (int)tidl, tid, s->tid_repr);
    }
    const char *sn = aws_log_subject_name(SUBJECTS[m->subject]);
    if (subjl != strlen(sn) || memcmp(subj, sn, subjl)) {
        mon_violation("C14:line-format:subject", "record %zu: subject field '%.*s', the call used '%s'", rec_idx, (int)subjl, subj, sn);
    }
    size_t got = (size_t)(end - p);
    if (got != m->expected_len || memcmp(p, m->expected, got)) {
        size_t d = 0;
        while (d < got && d < m->expected_len && p[d] == m->expected[d]) {
            ++d;
        }
        mon_violation("C14:payload-mismatch", "record %zu (sender %d call %d shape %d): message has %zu bytes, expected %zu; first difference at offset %zu", rec_idx,
                      sender, n, m->shape, got, m->expected_len, d);
    }
    return true;
bad:
    mon_violation("C14:line-format:prefix", "record %zu does not match '[LEVEL] [timestamp] [thread-id] [subject] - ...': '%.60s'", rec_idx, (const char *)line);
    return false;
}

static void thr_case(void) {
    struct mon_rng *r = &mon_case_rng;
    memset(&T, 0, sizeof(T));
    T.wall_start = time(NULL);
    bool background = mon_chance(r, 7, 10);
    T.nsenders = 1 + (int)mon_below(r, MAX_SENDERS);
    T.nphases = 1 + (int)mon_below(r, 3);
    /* burst scenarios: many short messages; with a background channel the writer may additionally be stalled until the
     * senders are done, so that hundreds of lines are still queued when clean-up is called */
    bool burst = mon_chance(r, 1, 4);
    bool stall = burst && background && mon_chance(r, 2, 3);
    if (stall) {
        T.nphases = 1; /* a stalled writer and barriers do not mix: senders would wait for nothing, but keep it simple */
    }
    for (int ph = 0; ph < T.nphases; ++ph) {
        unsigned pick = (unsigned)mon_below(r, 10);
        T.phase_level[ph] = pick == 0 ? AWS_LL_NONE : pick < 3 ? AWS_LL_TRACE : (int)mon_range(r, AWS_LL_FATAL, AWS_LL_TRACE);
    }
    int prof_idx = (int)mon_below(r, (uint64_t)perturb_nprofiles());
    uint64_t pseed = mon_rand(r);
    size_t total_bytes = 0;
    int total_msgs = 0;
    for (int i = 0; i < T.nsenders; ++i) {
        struct sender *s = &T.s[i];
        s->idx = i;
        s->seed = mon_rand(r);
        s->pause_mask = (uint32_t)mon_rand(r) & (uint32_t)mon_rand(r);
        s->nmsgs = burst ? 100 + (int)mon_below(r, MAX_MSGS - 100) : 1 + (int)mon_below(r, 64 / (T.nsenders > 4 ? 2 : 1));
        for (int n = 0; n < s->nmsgs; ++n) {
            struct msg *m = &s->msgs[n];
            m->level = (int)mon_range(r, AWS_LL_FATAL, AWS_LL_TRACE);
            m->subject = (int)mon_below(r, N_SUBJECTS);
            if (m->subject >= N_LIB_SUBJECTS && OWN_NAME_LEN[m->subject - N_LIB_SUBJECTS] >= 79) {
                mon_flag(F_LONG_SUBJECT);
            }
            m->shape = (int)mon_below(r, 4);
            if (mon_chance(r, 1, 25)) {
                m->shape = 4;
                mon_flag(F_UNFORMATTABLE);
            }
            unsigned lp = (unsigned)mon_below(r, 100);
            m->plen = lp < 8 ? 0 : lp < 80 ? (size_t)mon_below(r, 200) : lp < 95 ? (size_t)mon_below(r, 3000) : (size_t)mon_below(r, 20001);
            if (burst && m->plen > 120) {
                m->plen = (size_t)mon_below(r, 120);
            }
            if (total_bytes + m->plen > (4u << 20)) {
                m->plen = 10;
            }
            total_bytes += m->plen + 200;
            m->phase = (int)(((uint64_t)n * (uint64_t)T.nphases) / (uint64_t)s->nmsgs);
            mon_fp((uint64_t)m->level * 8 + (uint64_t)m->shape);
            mon_fp(m->plen);
            if (m->plen == 0) {
                mon_flag(F_EMPTY_MESSAGE);
            }
            if (m->plen > 8000) {
                mon_flag(F_LONG_MESSAGE);
            }
            ++total_msgs;
        }
    }
    mon_fp((uint64_t)background * 64 + (uint64_t)T.nsenders * 8 + (uint64_t)T.nphases);
    struct mon_alloc_stats st0;
    mon_guard_stats(&st0);
    __atomic_store_n(&s_nrec, 0, __ATOMIC_RELAXED);
    __atomic_store_n(&s_arena_used, 0, __ATOMIC_RELAXED);
    mon_ev_reset(1, 16);
    mon_ev_bind(0);
    struct aws_allocator *alloc = mon_guard_allocator();
    struct perturb_profile prof;
    perturb_get_profile(prof_idx, &prof);
    perturb_begin(pseed, &prof);
    perturb_bind(0);
    mon_watchdog_arm(180, "C14:hang", background ? "background channel: a log call or clean-up did not return" : "foreground channel: a log call or clean-up did not return");

    struct aws_log_writer writer = {.vtable = &s_writer_vtable, .allocator = alloc, .impl = NULL};
    struct aws_log_formatter formatter;
    static const enum aws_date_format k_formats[] = {AWS_DATE_FORMAT_ISO_8601, AWS_DATE_FORMAT_ISO_8601_BASIC, AWS_DATE_FORMAT_RFC822};
    T.date_format = k_formats[mon_below(r, 3)];
    mon_fp((uint64_t)T.date_format);
    struct aws_log_formatter_standard_options fopt = {.date_format = T.date_format};
    struct aws_log_channel channel;
    int rc = aws_log_formatter_init_default(&formatter, alloc, &fopt);
    rc |= background ? aws_log_channel_init_background(&channel, alloc, &writer) : aws_log_channel_init_foreground(&channel, alloc, &writer);
    rc |= aws_logger_init_from_external(&T.logger, alloc, &formatter, &channel, &writer, (enum aws_log_level)T.phase_level[0]);
    if (rc) {
        mon_violation("C14:init-failed", "pipeline initialisation failed");
        perturb_end();
        mon_watchdog_disarm();
        return;
    }
    aws_logger_set(&T.logger);
    __atomic_store_n(&s_writer_gate, 0, __ATOMIC_RELAXED);
    __atomic_store_n(&s_writer_stall, stall ? 1 : 0, __ATOMIC_RELAXED);
    bool writer_fails = mon_chance(r, 1, 3);
    __atomic_store_n(&s_writer_fails, writer_fails ? 1 : 0, __ATOMIC_RELAXED);
    __atomic_store_n(&s_writer_errors, 0, __ATOMIC_RELAXED);
    bool echo = background && mon_chance(r, 1, 3);
    __atomic_store_n(&s_echo_sent, 0, __ATOMIC_RELAXED);
    __atomic_store_n(&s_echo_refused, 0, __ATOMIC_RELAXED);
    __atomic_store_n(&s_echo_channel, echo ? &channel : NULL, __ATOMIC_RELEASE);
    pthread_barrier_init(&T.barrier, NULL, (unsigned)T.nsenders + 1);
    pthread_t th[MAX_SENDERS];
    for (int i = 0; i < T.nsenders; ++i) {
        if (pthread_create(&th[i], NULL, sender_main, &T.s[i])) {
            fprintf(stderr, "mon: pthread_create failed\n");
            exit(2);
        }
    }
    for (int ph = 0; ph + 1 < T.nphases; ++ph) {
        pthread_barrier_wait(&T.barrier);
        /* "a level change applies to all later calls": changed while no call is in flight */
        aws_logger_set_log_level(&T.logger, (enum aws_log_level)T.phase_level[ph + 1]);
        if (T.phase_level[ph + 1] != T.phase_level[ph]) {
            mon_flag(F_LEVEL_CHANGE);
        }
        pthread_barrier_wait(&T.barrier);
    }
    for (int i = 0; i < T.nsenders; ++i) {
        pthread_join(th[i], NULL);
    }
    /* shut down immediately after the last send returned: the background thread may be mid-batch */
    uint64_t written_before_cleanup = __atomic_load_n(&s_nrec, __ATOMIC_RELAXED);
    __atomic_store_n(&s_writer_gate, 1, __ATOMIC_RELEASE);
    aws_logger_set(NULL);
    aws_log_channel_clean_up(&channel);
    uint64_t t_cleanup_ret = mon_ev_now();
    uint64_t nrec_at_cleanup = __atomic_load_n(&s_nrec, __ATOMIC_RELAXED);
    __atomic_store_n(&s_echo_channel, NULL, __ATOMIC_RELEASE);
    aws_log_formatter_clean_up(&formatter);
    aws_logger_clean_up(&T.logger);
    perturb_end();
    mon_watchdog_disarm();
    pthread_barrier_destroy(&T.barrier);
    /* give a (wrongly) still-running writer a moment to show itself */
    sched_yield();
    uint64_t nrec_after = __atomic_load_n(&s_nrec, __ATOMIC_RELAXED);
    if (nrec_after != nrec_at_cleanup) {
        mon_violation("C14:write-after-cleanup", "%llu lines reached the writer after the channel's clean_up returned", (unsigned long long)(nrec_after - nrec_at_cleanup));
    }
    if (__atomic_load_n(&s_writer_overlaps, __ATOMIC_RELAXED)) {
        mon_violation("C14:concurrent-writer-calls", "%s channel: the writer was entered %llu times while another write was in progress (lines can be torn)",
                      background ? "background" : "foreground", (unsigned long long)__atomic_load_n(&s_writer_overlaps, __ATOMIC_RELAXED));
        __atomic_store_n(&s_writer_overlaps, 0, __ATOMIC_RELAXED);
    }
    if (__atomic_load_n(&s_rec_overflow, __ATOMIC_RELAXED)) {
        fprintf(stderr, "mon: writer record overflow\n");
        exit(2);
    }
    /* ---- checker ---- */
    int expected_lines = 0, filtered = 0;
    for (int i = 0; i < T.nsenders; ++i) {
        for (int n = 0; n < T.s[i].nmsgs; ++n) {
            struct msg *m = &T.s[i].msgs[n];
            if (T.phase_level[m->phase] >= m->level && m->shape != 4) {
                ++expected_lines;
            } else {
                ++filtered;
            }
        }
    }
    int last_n[MAX_SENDERS];
    for (int i = 0; i < MAX_SENDERS; ++i) {
        last_n[i] = -1;
    }
    uint64_t bg_thread = 0, echo_seen = 0;
    size_t nrec = (size_t)(nrec_after < MAX_REC ? nrec_after : MAX_REC);
    for (size_t k = 0; k < nrec; ++k) {
        struct rec *rc_ = &s_rec[k];
        if (rc_->t > t_cleanup_ret) {
            mon_violation("C14:write-after-cleanup", "record %zu was written after the channel's clean_up returned", k);
        }
        int sender, n;
        if (rc_->len >= sizeof(ECHO_PREFIX) && !memcmp(s_arena + rc_->off, ECHO_PREFIX, sizeof(ECHO_PREFIX) - 1)) {
            ++echo_seen;
            continue;
        }
        if (!check_line(s_arena + rc_->off, rc_->len, k, &sender, &n)) {
            continue;
        }
        struct msg *m = &T.s[sender].msgs[n];
        m->seen++;
        if (m->shape == 4) {
            mon_violation("C14:unformattable-call-produced-line", "sender %d call %d: a message that cannot be formatted in the C locale produced a line", sender, n);
        }
        if (T.phase_level[m->phase] < m->level) {
            mon_violation("C14:filtered-call-produced-line", "sender %d call %d at level %s produced a line although the active level was %s", sender, n,
                          level_name(m->level), T.phase_level[m->phase] == AWS_LL_NONE ? "NONE" : level_name(T.phase_level[m->phase]));
        }
        if (n <= last_n[sender]) {
            mon_violation(n == last_n[sender] ? "C14:duplicate-line" : "C14:per-thread-order", "sender %d: line of call %d reached the writer after the line of call %d",
                          sender, n, last_n[sender]);
        }
        last_n[sender] = n;
        if (background) {
            if (!bg_thread) {
                bg_thread = rc_->thread;
            } else if (bg_thread != rc_->thread) {
                mon_violation("C14:background-writes-from-several-threads", "background channel wrote from more than one thread");
            }
            for (int i = 0; i < T.nsenders; ++i) {
                if (rc_->thread == T.s[i].pthread_id) {
                    mon_violation("C14:background-write-on-sender-thread", "background channel invoked the writer on sender thread %d", i);
                }
            }
        } else if (rc_->thread != T.s[sender].pthread_id) {
            mon_violation("C14:foreground-write-on-other-thread", "foreground channel wrote sender %d's line on another thread", sender);
        }
    }
    for (int i = 0; i < T.nsenders; ++i) {
        for (int n = 0; n < T.s[i].nmsgs; ++n) {
            struct msg *m = &T.s[i].msgs[n];
            bool accepted = T.phase_level[m->phase] >= m->level && m->shape != 4;
            if (accepted && m->seen == 0) {
                mon_violation("C14:lost-line", "sender %d call %d (level %s, %zu payload bytes, %s channel) was accepted but no line reached the writer before clean_up returned",
                              i, n, level_name(m->level), m->plen, background ? "background" : "foreground");
            } else if (m->seen > 1) {
                mon_violation("C14:duplicate-line", "sender %d call %d reached the writer %d times", i, n, m->seen);
            }
            free(m->expected);
            m->expected = NULL;
        }
    }
    {
        uint64_t sent = __atomic_load_n(&s_echo_sent, __ATOMIC_RELAXED), refused = __atomic_load_n(&s_echo_refused, __ATOMIC_RELAXED);
        if (refused || echo_seen != sent) {
            mon_violation("C14:lost-line", "background channel: the writer sent %llu follow-up lines from the logger thread while the channel was running; %llu were refused and %llu "
                          "reached the writer before clean_up returned", (unsigned long long)(sent + refused), (unsigned long long)refused, (unsigned long long)echo_seen);
        }
        if (sent) {
            mon_flag(F_WRITER_LOGS_ITSELF);
            mon_count("lines_sent_by_the_writer_itself", sent);
        }
    }
    struct mon_alloc_stats st1;
    mon_guard_stats(&st1);
    if (st1.live_blocks != st0.live_blocks) {
        mon_violation("C14:leak", "allocator imbalance after clean-up: %lld blocks (%lld bytes) still live (a line string not destroyed exactly once?)",
                      (long long)(st1.live_blocks - st0.live_blocks), (long long)(st1.live_bytes - st0.live_bytes));
    }
    mon_flag(background ? F_BACKGROUND : F_FOREGROUND);
    if (T.nsenders > 1) {
        mon_flag(F_MULTI_SENDER);
    }
    if (filtered) {
        mon_flag(F_FILTERED_CALLS);
    }
    for (int ph = 0; ph < T.nphases; ++ph) {
        if (T.phase_level[ph] == AWS_LL_NONE) {
            mon_flag(F_LEVEL_NONE);
        }
    }
    __atomic_store_n(&s_writer_stall, 0, __ATOMIC_RELAXED);
    __atomic_store_n(&s_writer_fails, 0, __ATOMIC_RELAXED);
    if (__atomic_load_n(&s_writer_errors, __ATOMIC_RELAXED)) {
        mon_flag(F_WRITER_ERRORS);
        mon_count("writer_calls_that_reported_an_error", __atomic_load_n(&s_writer_errors, __ATOMIC_RELAXED));
    }
    if (background && (uint64_t)expected_lines > written_before_cleanup + 64) {
        mon_flag(F_DEEP_BACKLOG);
    }
    mon_count_max("max_lines_still_queued_at_clean_up", (uint64_t)expected_lines > written_before_cleanup ? (uint64_t)expected_lines - written_before_cleanup : 0);
    if (background && written_before_cleanup < (uint64_t)expected_lines) {
        mon_flag(F_SHUTDOWN_WITH_BACKLOG);
        mon_count("lines_flushed_by_clean_up", (uint64_t)expected_lines - written_before_cleanup);
    }
    mon_fp(perturb_signature());
    mon_distinct("interleaving_signatures", perturb_signature());

    mon_count("scenarios", 1);
    mon_count("log_calls", (uint64_t)total_msgs);
    mon_count("lines_expected", (uint64_t)expected_lines);
    mon_count("lines_recorded", nrec);
    mon_count("calls_filtered", (uint64_t)filtered);
    mon_count("sched_points", perturb_points());
    mon_count("sched_delays_injected", perturb_delays());
    mon_count("thread_switches_in_trace_prefix", perturb_switches());
    mon_sample("%s channel, %d senders, %d phases (levels %d,%d,%d), %d calls, %d lines expected, %zu recorded, %llu still queued at clean-up, profile=%s; first line: %.*s",
               background ? "background" : "foreground", T.nsenders, T.nphases, T.phase_level[0], T.phase_level[1], T.phase_level[2], total_msgs, expected_lines, nrec,
               (unsigned long long)((uint64_t)expected_lines > written_before_cleanup ? (uint64_t)expected_lines - written_before_cleanup : 0),
               perturb_profile_name(prof_idx), nrec ? (int)(s_rec[0].len > 100 ? 100 : s_rec[0].len - 1) : 0, nrec ? (const char *)(s_arena + s_rec[0].off) : "");
}

/* ================================================================== truncation sweep */
static int format_direct(struct aws_logging_standard_formatting_data *fd, ...) {
    va_list ap;
    va_start(ap, fd);
    int rc = aws_format_standard_log_line(fd, ap);
    va_end(ap);
    return rc;
}

/* compares a (possibly truncated) line with the full rendering; the timestamp may have ticked in between */
static bool same_modulo_timestamp(const char *a, const char *full, size_t n) {
    const char *ts0 = strchr(full, ']');
    ts0 = ts0 ? ts0 + 3 : full; /* after "] [" */
    const char *ts1 = ts0 + 20;
    for (size_t i = 0; i < n; ++i) {
        if (a[i] != full[i]) {
            const char *pf = full + i;
            if (pf >= ts0 && pf < ts1 && a[i] >= '0' && a[i] <= '9' && full[i] >= '0' && full[i] <= '9') {
                continue;
            }
            return false;
        }
    }
    return true;
}

/* a stream that refuses selected writes (no bytes taken, errno EAGAIN) and records the others */
struct failing_stream {
    char buf[16384];
    size_t n;
    int attempts;
    int fail_at; /* 1-based attempt number that fails */
    bool fail_twice;
};

static ssize_t failing_write(void *cookie, const char *data, size_t size) {
    struct failing_stream *fs = cookie;
    ++fs->attempts;
    if (fs->attempts == fs->fail_at || (fs->fail_twice && fs->attempts == fs->fail_at + 1)) {
        errno = EAGAIN;
        return 0;
    }
    if (fs->n + size <= sizeof(fs->buf)) {
        memcpy(fs->buf + fs->n, data, size);
        fs->n += size;
    }
    return (ssize_t)size;
}

static void trunc_case(uint64_t case_idx) {
    struct mon_rng *r = &mon_case_rng;
    struct aws_allocator *alloc = mon_guard_allocator();
    struct mon_alloc_stats st0;
    mon_guard_stats(&st0);
    /* ---- part 1: no-alloc logger over a memstream ---- */
    char *mem = NULL;
    size_t memlen = 0;
    FILE *f = open_memstream(&mem, &memlen);
    struct aws_logger logger;
    struct aws_logger_standard_options opt = {.level = AWS_LL_TRACE, .filename = NULL, .file = f};
    if (!f || aws_logger_init_noalloc(&logger, alloc, &opt)) {
        mon_violation("C14:init-failed", "no-alloc logger initialisation failed");
        return;
    }
    aws_logger_set(&logger);
    enum { NCALLS = 12 };
    size_t lens[NCALLS];
    char *payloads[NCALLS];
    for (int i = 0; i < NCALLS; ++i) {
        /* every size 8000..8400 is visited across cases; plus short ones */
        unsigned pick = (unsigned)mon_below(r, 10);
        lens[i] = pick < 6 ? 8000 + (size_t)((case_idx * NCALLS + (uint64_t)i) % 401) : pick < 8 ? (size_t)mon_below(r, 201) : 7900 + (size_t)mon_below(r, 2000);
        payloads[i] = make_payload(0, i, lens[i], case_idx);
        mon_fp(lens[i]);
        aws_log_subject_t subj = SUBJECTS[mon_below(r, N_SUBJECTS)];
        mon_fp(subj);
        AWS_LOGF_INFO(subj, "%s", payloads[i]);
    }
    aws_logger_set(NULL);
    aws_logger_clean_up(&logger);
    fflush(f);
    /* split the stream at newlines: exactly NCALLS lines, each identifying its call */
    size_t pos = 0;
    int line_no = 0;
    char tid[AWS_THREAD_ID_T_REPR_BUFSZ];
    aws_thread_id_t_to_string(aws_thread_current_thread_id(), tid, sizeof(tid));
    while (pos < memlen && line_no < NCALLS + 4) {
        const char *nl = memchr(mem + pos, '\n', memlen - pos);
        size_t ll = nl ? (size_t)(nl - (mem + pos)) + 1 : memlen - pos;
        const char *line = mem + pos;
        if (!nl) {
            mon_violation("C14:line-not-newline-terminated", "no-alloc logger: output ends without a newline after %d lines (message of %zu bytes)", line_no,
                          line_no < NCALLS ? lens[line_no] : 0);
            break;
        }
        if (memchr(line, 0, ll)) {
            mon_violation("C14:line-contains-nul", "no-alloc logger: line %d (message of %zu bytes, line of %zu bytes) contains a NUL byte", line_no,
                          line_no < NCALLS ? lens[line_no] : 0, ll);
        }
        if (ll > 8192) {
            mon_violation("C14:line-exceeds-buffer", "no-alloc logger: line %d has %zu bytes, the line buffer has 8192", line_no, ll);
        }
        if (line_no < NCALLS) {
            /* expected: prefix + payload, cut to the buffer */
            const char *sep = NULL;
            for (size_t k = 0; k + 3 <= ll; ++k) {
                if (!memcmp(line + k, " - ", 3)) {
                    sep = line + k + 3;
                    break;
                }
            }
            if (!sep) {
                mon_violation("C14:line-format:prefix", "no-alloc logger: line %d has no ' - ' separator: '%.60s'", line_no, line);
            } else {
                size_t got = ll - 1 - (size_t)(sep - line);
                size_t full = strlen(payloads[line_no]);
                bool truncated = got < full;
                if (got > full || memcmp(sep, payloads[line_no], got)) {
                    mon_violation("C14:payload-mismatch", "no-alloc logger: line %d carries %zu message bytes that are not a prefix of the %zu-byte message", line_no, got,
                                  full);
                }
                if (truncated) {
                    mon_flag(F_TRUNCATED_NOALLOC);
                    mon_count("noalloc_lines_truncated", 1);
                    if (ll < 8190) {
                        mon_violation("C14:truncated-too-early", "no-alloc logger: line %d was cut at %zu bytes although the buffer has 8192", line_no, ll);
                    }
                } else {
                    mon_count("noalloc_lines_complete", 1);
                    if (ll >= 8185) {
                        mon_flag(F_EXACT_FIT);
                    }
                }
                char expect_prefix[160];
                snprintf(expect_prefix, sizeof(expect_prefix), "[INFO] [");
                if (memcmp(line, expect_prefix, strlen(expect_prefix))) {
                    mon_violation("C14:line-format:level", "no-alloc logger: line %d does not start with '[INFO] [': '%.30s'", line_no, line);
                }
            }
        }
        pos += ll;
        ++line_no;
    }
    if (line_no != NCALLS) {
        mon_violation(line_no < NCALLS ? "C14:lost-line" : "C14:duplicate-line", "no-alloc logger: %d calls produced %d newline-terminated lines (%zu bytes)", NCALLS,
                      line_no, memlen);
    }
    fclose(f);
    free(mem);
    for (int i = 0; i < NCALLS; ++i) {
        free(payloads[i]);
    }
    /* ---- part 2: aws_format_standard_log_line into fenced buffers of 2..300 bytes ---- */
    for (int rep = 0; rep < 24; ++rep) {
        size_t cap = 2 + (size_t)((case_idx * 24 + (uint64_t)rep) % 299);
        size_t plen = (size_t)mon_below(r, 260);
        char *payload = make_payload(1, rep, plen, case_idx);
        char full[1024];
        struct aws_logging_standard_formatting_data big = {.log_line_buffer = full,
                                                           .total_length = sizeof(full),
                                                           .level = AWS_LL_WARN,
                                                           .subject_name = (rep & 1) ? "subj" : s_own_names[mon_below(r, N_OWN_SUBJECTS)],
                                                           .format = "%s",
                                                           .date_format = AWS_DATE_FORMAT_ISO_8601,
                                                           .allocator = alloc,
                                                           .amount_written = 0};
        if (format_direct(&big, payload) || big.amount_written == 0 || full[big.amount_written - 1] != '\n') {
            mon_violation("C14:format-direct:full", "aws_format_standard_log_line failed or gave no newline with a 1024-byte buffer");
            free(payload);
            continue;
        }
        char *buf = mon_fence_new(cap);
        memset(buf, 0x5A, cap);
        struct aws_logging_standard_formatting_data small = big;
        small.log_line_buffer = buf;
        small.total_length = cap;
        small.amount_written = 0;
        int rc = format_direct(&small, payload);
        mon_fp(cap);
        if (mon_fence_check(buf)) {
            mon_violation("C14:format-direct:canary", "aws_format_standard_log_line wrote outside a %zu-byte line buffer", cap);
        }
        if (rc == AWS_OP_SUCCESS) {
            size_t w = small.amount_written;
            if (w == 0 || w > cap) {
                mon_violation("C14:format-direct:amount", "buffer of %zu bytes: amount_written = %zu", cap, w);
            } else {
                if (buf[w - 1] != '\n') {
                    mon_violation("C14:line-not-newline-terminated", "aws_format_standard_log_line into %zu bytes (full line %zu bytes): last written byte is 0x%02x, not a newline",
                                  cap, big.amount_written, (unsigned char)buf[w - 1]);
                }
                if (memchr(buf, 0, w)) {
                    mon_violation("C14:line-contains-nul", "aws_format_standard_log_line into %zu bytes: NUL inside the %zu written bytes", cap, w);
                }
                if (w >= 2 && !same_modulo_timestamp(buf, full, w - 1)) {
                    mon_violation("C14:format-direct:content", "truncated line of %zu bytes is not a prefix of the full line: '%.*s' vs '%.*s'", w, (int)(w - 1), buf,
                                  (int)(w - 1), full);
                }
                if (w < big.amount_written) {
                    mon_flag(F_TRUNCATED_DIRECT);
                    mon_count("direct_lines_truncated", 1);
                    if (w + 2 < cap) {
                        mon_violation("C14:truncated-too-early", "line cut at %zu bytes although the buffer has %zu", w, cap);
                    }
                } else {
                    mon_count("direct_lines_complete", 1);
                }
            }
        } else {
            mon_count("direct_format_refused", 1);
        }
        mon_fence_free(buf);
        free(payload);
    }
    /* ---- part 3: the standard logger (default formatter, background channel, the library's own file writer) writing
     * to a file the library opens by name, or to a FILE the caller supplies; the file's content is the writer's log ---- */
    {
        enum { NSTD = 40 };
        uint64_t v3 = mon_violations();
        bool by_name = (case_idx & 1) != 0;
        char path[512];
        snprintf(path, sizeof(path), "%s/c14_std_%d_%llu.log", mon_run.outdir ? mon_run.outdir : ".", (int)getpid(), (unsigned long long)case_idx);
        remove(path);
        char *smem = NULL;
        size_t smemlen = 0;
        FILE *sf = by_name ? NULL : open_memstream(&smem, &smemlen);
        int active = (int)mon_range(r, AWS_LL_ERROR, AWS_LL_TRACE);
        struct aws_logger slog;
        struct aws_logger_standard_options sopt = {.level = (enum aws_log_level)active, .filename = by_name ? path : NULL, .file = sf};
        if (aws_logger_init_standard(&slog, alloc, &sopt)) {
            mon_violation("C14:init-failed", "aws_logger_init_standard(%s) failed, error %d", by_name ? "by file name" : "caller's FILE", aws_last_error());
        } else {
            aws_logger_set(&slog);
            char *spay[NSTD];
            int slevel[NSTD], ssubj[NSTD], nexp = 0;
            for (int i = 0; i < NSTD; ++i) {
                unsigned lp = (unsigned)mon_below(r, 100);
                size_t plen = lp < 10 ? 0 : lp < 80 ? (size_t)mon_below(r, 300) : lp < 97 ? (size_t)mon_below(r, 5000) : 8000 + (size_t)mon_below(r, 9000);
                spay[i] = make_payload(2, i, plen, case_idx);
                slevel[i] = (int)mon_range(r, AWS_LL_FATAL, AWS_LL_TRACE);
                ssubj[i] = (int)mon_below(r, N_SUBJECTS);
                LOG_AT(slevel[i], SUBJECTS[ssubj[i]], "%s", spay[i]);
                nexp += slevel[i] <= active;
            }
            aws_logger_set(NULL);
            aws_logger_clean_up(&slog); /* flushes the channel; closes the file only if the library opened it */
            char *content = NULL;
            size_t clen = 0;
            if (by_name) {
                FILE *rf = fopen(path, "rb");
                if (rf) {
                    fseek(rf, 0, SEEK_END);
                    long sz = ftell(rf);
                    fseek(rf, 0, SEEK_SET);
                    content = malloc((size_t)sz + 1);
                    clen = fread(content, 1, (size_t)sz, rf);
                    fclose(rf);
                }
                remove(path);
            } else {
                /* the caller's FILE must still be open and usable */
                if (fflush(sf) != 0) {
                    mon_violation("C14:std:caller-file-closed", "the FILE handed to aws_logger_init_standard is unusable after clean-up");
                }
                fclose(sf);
                content = smem;
                clen = smemlen;
            }
            size_t pos3 = 0;
            int got = 0, next = 0;
            while (content && pos3 < clen) {
                const char *nl = memchr(content + pos3, '\n', clen - pos3);
                if (!nl) {
                    mon_violation("C14:line-not-newline-terminated", "standard logger: file ends without a newline after %d lines", got);
                    break;
                }
                size_t ll = (size_t)(nl - (content + pos3)) + 1;
                const char *line = content + pos3;
                while (next < NSTD && slevel[next] > active) {
                    ++next;
                }
                if (next >= NSTD) {
                    mon_violation("C14:duplicate-line", "standard logger: more lines in the file than calls at or below the level (%d)", nexp);
                    break;
                }
                if (memchr(line, 0, ll)) {
                    mon_violation("C14:line-contains-nul", "standard logger: line %d contains a NUL byte", got);
                }
                char want_prefix[32];
                int wl = snprintf(want_prefix, sizeof(want_prefix), "[%s] [", level_name(slevel[next]));
                const char *sn = aws_log_subject_name(SUBJECTS[ssubj[next]]);
                size_t snl = strlen(sn), pl = strlen(spay[next]);
                /* ... [subject] - payload\n at the end of the line */
                size_t tail = 1 + snl + 4 + pl + 1;
                bool ok = ll >= (size_t)wl + tail && !memcmp(line, want_prefix, (size_t)wl) && line[ll - tail] == '[' && !memcmp(line + ll - tail + 1, sn, snl) &&
                          !memcmp(line + ll - tail + 1 + snl, "] - ", 4) && !memcmp(line + ll - 1 - pl, spay[next], pl);
                if (!ok) {
                    mon_violation("C14:std:line-mismatch",
                                  "standard logger (%s): line %d (%zu bytes) is not '[%s] [time] [tid] [%.20s...] - <message of %zu bytes>': '%.50s'...'%s'",
                                  by_name ? "file by name" : "caller's FILE", got, ll, level_name(slevel[next]), sn, pl, line,
                                  mon_hex(line + (ll > 16 ? ll - 16 : 0), ll > 16 ? 16 : ll, 16));
                }
                ++next;
                ++got;
                pos3 += ll;
            }
            if (got != nexp && mon_violations() == v3) {
                mon_violation(got < nexp ? "C14:lost-line" : "C14:duplicate-line", "standard logger (%s): %d calls at or below level %s, %d lines in the file (%zu bytes)",
                              by_name ? "file by name" : "caller's FILE", nexp, level_name(active), got, clen);
            }
            mon_count("standard_logger_lines_checked", (uint64_t)got);
            mon_flag(by_name ? F_STD_BY_NAME : F_STD_BY_FILE);
            free(content);
            for (int i = 0; i < NSTD; ++i) {
                free(spay[i]);
            }
        }
    }
    /* ---- part 4: the no-alloc logger writing to a FILE whose writes fail now and then (EAGAIN on a non-blocking pipe,
     * a momentarily full disk): the failing call reports an error, every other call still produces its whole line ---- */
    {
        enum { NFW = 8 };
        uint64_t v4 = mon_violations();
        static struct failing_stream fs;
        memset(&fs, 0, sizeof(fs));
        fs.fail_at = 1 + (int)mon_below(r, NFW);
        fs.fail_twice = mon_chance(r, 1, 3);
        cookie_io_functions_t io = {.read = NULL, .write = failing_write, .seek = NULL, .close = NULL};
        FILE *ff = fopencookie(&fs, "w", io);
        setvbuf(ff, NULL, _IONBF, 0);
        struct aws_logger flog;
        struct aws_logger_standard_options fopt = {.level = AWS_LL_TRACE, .filename = NULL, .file = ff};
        if (!ff || aws_logger_init_noalloc(&flog, alloc, &fopt)) {
            mon_violation("C14:init-failed", "no-alloc logger over a cookie stream could not be initialised");
        } else {
            mon_watchdog_arm(60, "C14:hang", "no-alloc logger: a log call after a failed write (or clean-up) did not return");
            aws_logger_set(&flog);
            char *fpay[NFW];
            for (int i = 0; i < NFW; ++i) {
                fpay[i] = make_payload(3, i, (size_t)mon_below(r, 300), case_idx);
                AWS_LOGF_WARN(SUBJECTS[mon_below(r, N_LIB_SUBJECTS)], "%s", fpay[i]);
            }
            aws_logger_set(NULL);
            aws_logger_clean_up(&flog);
            mon_watchdog_disarm();
            /* every call made one write attempt; the accepted ones must be whole lines of the calls that did not fail */
            int expect_failed = fs.fail_twice ? 2 : 1;
            if (fs.attempts != NFW) {
                mon_violation("C14:failing-file:write-attempts", "%d log calls led to %d write attempts on the stream", NFW, fs.attempts);
            }
            size_t pos4 = 0;
            int got = 0, call = 0;
            while (pos4 < fs.n) {
                const char *nl = memchr(fs.buf + pos4, '\n', fs.n - pos4);
                if (!nl) {
                    mon_violation("C14:line-not-newline-terminated", "no-alloc logger over a failing stream: output ends without a newline");
                    break;
                }
                size_t ll = (size_t)(nl - (fs.buf + pos4)) + 1;
                while (call < NFW && (call + 1 == fs.fail_at || (fs.fail_twice && call + 1 == fs.fail_at + 1))) {
                    ++call; /* the calls whose write was refused */
                }
                if (call >= NFW) {
                    mon_violation("C14:duplicate-line", "no-alloc logger over a failing stream: more lines than successful writes");
                    break;
                }
                size_t pl = strlen(fpay[call]);
                if (ll < pl + 4 || memcmp(fs.buf + pos4 + ll - 1 - pl, fpay[call], pl) || memcmp(fs.buf + pos4 + ll - 1 - pl - 3, " - ", 3)) {
                    mon_violation("C14:failing-file:line-mismatch", "no-alloc logger: line %d after a failed write does not end in the message of call %d: '%.60s'", got, call,
                                  fs.buf + pos4);
                    break;
                }
                ++call;
                ++got;
                pos4 += ll;
            }
            int want = NFW - expect_failed;
            if (fs.fail_twice && fs.fail_at == NFW) {
                want = NFW - 1;
            }
            if (got != want && mon_violations() == v4) {
                mon_violation("C14:lost-line", "no-alloc logger: write %d%s of %d was refused by the stream; %d whole lines arrived, expected %d", fs.fail_at,
                              fs.fail_twice ? " and the next one" : "", NFW, got, want);
            }
            mon_flag(F_NOALLOC_WRITE_FAILED);
            mon_count("noalloc_logger_lines_after_a_failed_write", (uint64_t)got);
            for (int i = 0; i < NFW; ++i) {
                free(fpay[i]);
            }
        }
        if (ff) {
            fclose(ff);
        }
    }
    struct mon_alloc_stats st1;
    mon_guard_stats(&st1);
    MON_CHECK(st1.live_blocks == st0.live_blocks, "C14:leak", "allocator imbalance after the truncation sweep: %lld blocks", (long long)(st1.live_blocks - st0.live_blocks));
    mon_sample("truncation sweep: message sizes %zu %zu %zu ..., direct buffers from %zu bytes", lens[0], lens[1], lens[2], 2 + (size_t)((case_idx * 24) % 299));
}

int main(int argc, char **argv) {
    mon_init(argc, argv, "C14");
    aws_common_library_init(aws_default_allocator());
    register_own_subjects();
    s_arena = malloc(ARENA_SIZE);
    static const char *names[] = {"background_channel", "foreground_channel", "several_senders", "message_over_8000_bytes", "filtered_calls", "level_changed_at_barrier",
                                  "empty_message", "clean_up_with_lines_still_queued", "noalloc_line_truncated", "direct_line_truncated", "line_fills_buffer_exactly",
                                  "level_none", "clean_up_with_more_than_64_lines_queued", "writer_reported_errors",
                                  "subject_name_of_79_to_300_characters", "standard_logger_file_opened_by_name", "standard_logger_callers_FILE",
                                  "noalloc_logger_stream_refused_a_write", "message_that_cannot_be_formatted", "writer_sent_lines_from_the_logger_thread"};
    for (int i = 0; i < (int)(sizeof(names) / sizeof(names[0])); ++i) {
        mon_flag_name(i, names[i]);
    }
    bool trunc = !strcmp(mon_run.mode, "trunc");
    if (!trunc) {
        mon_watchdog_arm(3600, "C14:hang", "startup");
        mon_watchdog_disarm();
    }
    uint64_t c;
    while (mon_next_case(&c)) {
        mon_case_begin(c);
        if (trunc) {
            trunc_case(c);
            mon_case_end(mon_flag_count() >= 2);
        } else {
            thr_case();
            mon_case_end(mon_flag_count() >= 3);
        }
    }
    return mon_finish();
}
