/*
 * C16 variant translation unit: the implementation the build selects
 *
 * Plain `#include <aws/common/math.h>` exactly as any client of the library gets it (the dispatcher in
 * math.inl:20-46 decides; with this toolchain that is math.gcc_builtin.inl + math.gcc_overflow.inl).
 * The generic part of math.inl (subtraction, size_t dispatch, power-of-two helpers, min/max) and
 * clock.inl (time-unit conversion) are compiled on top of the implementation chosen here, so they are
 * exercised with every variant underneath.  Everything from the library headers is `static inline`
 * (AWS_STATIC_IMPL), so the four TUs do not collide at link time; c16_variant.h exports one table.
 */
#include <aws/common/math.h>

#define C16_VARIANT_NAME sel
#define C16_VARIANT_WHAT "<aws/common/math.h> as the build selects it"
#include "c16_variant.h"
