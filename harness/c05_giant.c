/*
 * C05 - one base64 text of more than 4 GiB decoded in one call (DESIGN.md section 10.5, C05).
 * Offsets, stride counters and lengths inside the codec are size_t: nothing may wrap at 2^32. The text is real memory
 * only once: one 64 MiB block of valid base64 mapped 65 times back to back (copy-on-write), followed by a different tail
 * that ends in padding; the 3 GiB of output are real. Every output byte is compared with the decoding of the block;
 * then one character beyond the 4 GiB mark is made illegal and the call must fail.
 * Third part: aws_decode_utf8 of 2 GiB + 16 bytes in one call (see run_utf8_case).
 * Second part of the case: aws_hex_encode / aws_hex_encode_append_dynamic of 4 GiB + 24 bytes (see run_hex_case).
 * case = one such decode (run once per stage, one process); skipped (counted) when the address space or memory is not there.
 */
#define _GNU_SOURCE
#include "mon.h"

#include <aws/common/byte_buf.h>
#include <aws/common/common.h>
#include <aws/common/encoding.h>
#include <aws/common/error.h>

#include <stdlib.h>
#include <string.h>
#include <sys/mman.h>
#include <unistd.h>

#define BLOCK ((size_t)64 << 20) /* text bytes per block; a multiple of 4 */
#define NBLOCKS 65

static uint8_t b64c(unsigned v) {
    return (uint8_t)(v < 26 ? 'A' + v : v < 52 ? 'a' + (v - 26) : v < 62 ? '0' + (v - 52) : v == 62 ? '+' : '/');
}
static int b64v(uint8_t c) {
    return c >= 'A' && c <= 'Z' ? c - 'A' : c >= 'a' && c <= 'z' ? c - 'a' + 26 : c >= '0' && c <= '9' ? c - '0' + 52 : c == '+' ? 62 : c == '/' ? 63 : -1;
}

static void run_case(void) {
    struct mon_rng *r = &mon_case_rng;
    mon_fp(0x61A7);
    int fd = memfd_create("c05giant", 0);
    if (fd < 0 || ftruncate(fd, (off_t)BLOCK) != 0) {
        mon_count("giant_decode_skipped_no_memfd", 1);
        return;
    }
    uint8_t *blk = mmap(NULL, BLOCK, PROT_READ | PROT_WRITE, MAP_SHARED, fd, 0);
    if (blk == MAP_FAILED) {
        mon_count("giant_decode_skipped_no_memory", 1);
        close(fd);
        return;
    }
    uint64_t x = mon_rand(r) | 1;
    for (size_t i = 0; i < BLOCK; ++i) {
        x = x * 6364136223846793005ULL + 1442695040888963407ULL;
        blk[i] = b64c((unsigned)(x >> 58));
    }
    /* reference decoding of one block */
    size_t blk_out = BLOCK / 4 * 3;
    uint8_t *ref = malloc(blk_out);
    for (size_t i = 0, o = 0; i < BLOCK; i += 4) {
        unsigned v = ((unsigned)b64v(blk[i]) << 18) | ((unsigned)b64v(blk[i + 1]) << 12) | ((unsigned)b64v(blk[i + 2]) << 6) | (unsigned)b64v(blk[i + 3]);
        ref[o++] = (uint8_t)(v >> 16);
        ref[o++] = (uint8_t)(v >> 8);
        ref[o++] = (uint8_t)v;
    }
    munmap(blk, BLOCK);
    static const char TAIL[] = "TWFueSBoYW5kcyBtYWtlIGxpZ2h0IHdvcmsuQQ=="; /* "Many hands make light work." + 'A' : one pad pair */
    static const char TAIL_PLAIN[] = "Many hands make light work.A";
    size_t tail_len = sizeof(TAIL) - 1, tail_out = sizeof(TAIL_PLAIN) - 1;
    size_t text_len = BLOCK * NBLOCKS + tail_len;
    uint8_t *text = mmap(NULL, text_len + 4096, PROT_NONE, MAP_PRIVATE | MAP_ANONYMOUS | MAP_NORESERVE, -1, 0);
    if (text == MAP_FAILED) {
        mon_count("giant_decode_skipped_no_address_space", 1);
        free(ref);
        close(fd);
        return;
    }
    for (size_t k = 0; k < NBLOCKS; ++k) {
        if (mmap(text + k * BLOCK, BLOCK, PROT_READ | PROT_WRITE, MAP_PRIVATE | MAP_FIXED, fd, 0) == MAP_FAILED) {
            mon_count("giant_decode_skipped_no_address_space", 1);
            munmap(text, text_len + 4096);
            free(ref);
            close(fd);
            return;
        }
    }
    if (mmap(text + NBLOCKS * BLOCK, 4096, PROT_READ | PROT_WRITE, MAP_PRIVATE | MAP_ANONYMOUS | MAP_FIXED, -1, 0) == MAP_FAILED) {
        mon_count("giant_decode_skipped_no_address_space", 1);
        munmap(text, text_len + 4096);
        free(ref);
        close(fd);
        return;
    }
    memcpy(text + NBLOCKS * BLOCK, TAIL, tail_len);
    size_t out_len = blk_out * NBLOCKS + tail_out;
    uint8_t *out = malloc(out_len + 64);
    if (!out) {
        mon_count("giant_decode_skipped_no_memory", 1);
        munmap(text, text_len + 4096);
        free(ref);
        close(fd);
        return;
    }
    memset(out + out_len, 0xA5, 64);
    size_t predicted = 0;
    struct aws_byte_cursor tc = aws_byte_cursor_from_array(text, text_len);
    if (aws_base64_compute_decoded_len(&tc, &predicted) || predicted != out_len) {
        mon_violation("C05:giant:decoded-len", "aws_base64_compute_decoded_len of %zu characters gives %zu, expected %zu", text_len, predicted, out_len);
    }
    struct aws_byte_buf ob = aws_byte_buf_from_empty_array(out, out_len);
    int rc = aws_base64_decode(&tc, &ob);
    if (rc != AWS_OP_SUCCESS || ob.len != out_len) {
        mon_violation("C05:giant:decode", "aws_base64_decode of %zu well-formed characters: rc=%d (%s), len=%zu, expected %zu", text_len, rc,
                      rc ? aws_error_name(aws_last_error()) : "-", ob.len, out_len);
    } else {
        for (size_t k = 0; k < NBLOCKS; ++k) {
            if (memcmp(out + k * blk_out, ref, blk_out)) {
                size_t i = 0;
                while (out[k * blk_out + i] == ref[i]) {
                    ++i;
                }
                mon_violation("C05:giant:bytes", "decoding %zu characters: output byte %zu (text offset about %zu) differs from the reference decoding", text_len,
                              k * blk_out + i, (k * blk_out + i) / 3 * 4);
                break;
            }
        }
        if (memcmp(out + NBLOCKS * blk_out, TAIL_PLAIN, tail_out)) {
            mon_violation("C05:giant:bytes", "decoding %zu characters: the last %zu output bytes differ from the reference", text_len, tail_out);
        }
        for (int i = 0; i < 64; ++i) {
            if (out[out_len + i] != 0xA5) {
                mon_violation("C05:giant:overrun", "byte %d behind the %zu-byte output changed", i, out_len);
                break;
            }
        }
    }
    /* an illegal character beyond the 4 GiB mark must be seen */
    size_t bad_at = ((size_t)1 << 32) + 100 + (size_t)mon_below(r, 1000);
    uint8_t saved = text[bad_at];
    text[bad_at] = (uint8_t)"*-_ \n"[mon_below(r, 5)];
    ob.len = 0;
    aws_reset_error();
    rc = aws_base64_decode(&tc, &ob);
    if (rc == AWS_OP_SUCCESS) {
        mon_violation("C05:giant:accepted-malformed", "text of %zu characters with byte 0x%02x at offset %zu (beyond 2^32) was accepted", text_len, text[bad_at], bad_at);
    } else if (aws_last_error() != AWS_ERROR_INVALID_BASE64_STR) {
        mon_violation("C05:giant:error-code", "malformed giant text refused with error %d", aws_last_error());
    }
    text[bad_at] = saved;
    free(out);
    free(ref);
    munmap(text, text_len + 4096);
    close(fd);
    mon_flag(0);
    mon_count("base64_texts_above_4GiB_decoded", 1);
}

/* ------------------------------------------------------------------ hex encoding of 4 GiB + a few bytes in one call
 * (both entry points are tried in turn by successive cases). The input is an untouched anonymous mapping (reads hit the
 * zero page) with marker bytes at the start, right behind the 4 GiB mark and at the end; the 8 GiB of output are one 64 MiB
 * shared block mapped again and again, with private first and last windows that start out as 0xCC. Checked: predicted and
 * reported length, the digits of every marker, the all-'0' middle (sampled through the shared block), the byte behind the end. */
#define HEX_IN (((size_t)1 << 32) + 24)
static void run_hex_case(uint64_t c) {
    mon_fp(0x6E87);
    size_t in_len = HEX_IN, out_len = 2 * HEX_IN;
    uint8_t *in = mmap(NULL, in_len, PROT_READ | PROT_WRITE, MAP_PRIVATE | MAP_ANONYMOUS | MAP_NORESERVE, -1, 0);
    int fd = memfd_create("c05hex", 0);
    if (in == MAP_FAILED || fd < 0 || ftruncate(fd, (off_t)BLOCK) != 0) {
        mon_count("giant_hex_skipped_no_memory", 1);
        return;
    }
    size_t nwin = (out_len + BLOCK - 1) / BLOCK; /* windows of BLOCK bytes; the last is partial */
    size_t map_len = nwin * BLOCK + 4096;
    uint8_t *out = mmap(NULL, map_len, PROT_NONE, MAP_PRIVATE | MAP_ANONYMOUS | MAP_NORESERVE, -1, 0);
    if (out == MAP_FAILED) {
        mon_count("giant_hex_skipped_no_address_space", 1);
        munmap(in, in_len);
        close(fd);
        return;
    }
    bool ok = true;
    for (size_t k = 0; k < nwin && ok; ++k) {
        bool priv = k == 0 || k + 2 >= nwin; /* the first and the last two windows: the digits of the bytes around the 4 GiB mark sit at 2^33 -+ 2 */
        void *m = priv ? mmap(out + k * BLOCK, BLOCK, PROT_READ | PROT_WRITE, MAP_PRIVATE | MAP_ANONYMOUS | MAP_FIXED, -1, 0)
                       : mmap(out + k * BLOCK, BLOCK, PROT_READ | PROT_WRITE, MAP_SHARED | MAP_FIXED, fd, 0);
        ok = m != MAP_FAILED;
        if (ok && priv) {
            memset(out + k * BLOCK, 0xCC, BLOCK);
        }
    }
    ok = ok && mmap(out + nwin * BLOCK, 4096, PROT_READ | PROT_WRITE, MAP_PRIVATE | MAP_ANONYMOUS | MAP_FIXED, -1, 0) != MAP_FAILED;
    if (!ok) {
        mon_count("giant_hex_skipped_no_address_space", 1);
        munmap(out, map_len);
        munmap(in, in_len);
        close(fd);
        return;
    }
    memset(out + nwin * BLOCK, 0xCC, 4096);
    /* markers */
    static const size_t AT[] = {0, 1, 2, ((size_t)1 << 32) - 1, (size_t)1 << 32, ((size_t)1 << 32) + 1, HEX_IN - 2, HEX_IN - 1};
    static const uint8_t MV[] = {0xAB, 0x01, 0xF0, 0x9E, 0x7D, 0x3C, 0xE5, 0x5A};
    for (size_t i = 0; i < sizeof(AT) / sizeof(AT[0]); ++i) {
        in[AT[i]] = MV[i];
    }
    size_t predicted = 0;
    if (aws_hex_compute_encoded_len(in_len, &predicted) || predicted != out_len) {
        mon_violation("C05:giant-hex:encoded-len", "aws_hex_compute_encoded_len(%zu) gives %zu, expected %zu", in_len, predicted, out_len);
    }
    struct aws_byte_cursor ic = aws_byte_cursor_from_array(in, in_len);
    bool dynamic = (c & 1) != 0;
    struct aws_byte_buf ob = aws_byte_buf_from_empty_array(out, out_len + 1);
    int rc;
    if (dynamic) {
        /* the append form only re-allocates when the capacity is short: it is not, the borrowed storage is used as it is */
        ob.allocator = mon_guard_allocator();
        rc = aws_hex_encode_append_dynamic(&ic, &ob);
    } else {
        rc = aws_hex_encode(&ic, &ob);
    }
    const char *fn = dynamic ? "aws_hex_encode_append_dynamic" : "aws_hex_encode";
    /* this version's aws_hex_encode reports 2n (no terminator counted); the append form too */
    if (rc != AWS_OP_SUCCESS || ob.len != out_len || ob.buffer != out) {
        mon_violation("C05:giant-hex:encode", "%s of %zu bytes: rc=%d (%s), len=%zu (expected %zu)%s", fn, in_len, rc, rc ? aws_error_name(aws_last_error()) : "-",
                      ob.len, out_len, ob.buffer != out ? ", storage replaced" : "");
    } else {
        static const char HX[] = "0123456789abcdef";
        for (size_t i = 0; i < sizeof(AT) / sizeof(AT[0]); ++i) {
            if (out[2 * AT[i]] != (uint8_t)HX[MV[i] >> 4] || out[2 * AT[i] + 1] != (uint8_t)HX[MV[i] & 15]) {
                mon_violation("C05:giant-hex:digits", "%s of %zu bytes: input byte %zu is 0x%02x, output offset %zu holds 0x%02x 0x%02x", fn, in_len, AT[i], MV[i],
                              2 * AT[i], out[2 * AT[i]], out[2 * AT[i] + 1]);
                break;
            }
        }
        /* private windows: everything that is not a marker digit is '0' */
        size_t priv[3] = {0, nwin - 2, nwin - 1};
        for (int w = 0; w < 3; ++w) {
            size_t lo = priv[w] * BLOCK, hi = lo + BLOCK < out_len ? lo + BLOCK : out_len;
            for (size_t o = lo; o < hi; ++o) {
                if (out[o] != '0') {
                    bool marker = false;
                    for (size_t i = 0; i < sizeof(AT) / sizeof(AT[0]); ++i) {
                        marker |= o / 2 == AT[i];
                    }
                    if (!marker) {
                        mon_violation("C05:giant-hex:digits", "%s of %zu bytes: output offset %zu holds 0x%02x, expected '0' (input byte %zu is 0)", fn, in_len, o, out[o], o / 2);
                        w = 3;
                        break;
                    }
                }
            }
        }
        /* shared block: every window wrote '0' over it */
        const uint8_t *sh = out + BLOCK;
        for (size_t o = 0; o < BLOCK; ++o) {
            if (sh[o] != '0') {
                mon_violation("C05:giant-hex:digits", "%s of %zu bytes: shared output block offset %zu holds 0x%02x, expected '0'", fn, in_len, o, sh[o]);
                break;
            }
        }
        for (size_t o = out_len; o < nwin * BLOCK + 4096 && o < out_len + 4096; ++o) {
            if (out[o] != 0xCC) {
                mon_violation("C05:giant-hex:overrun", "%s: byte %zu behind the %zu digits changed", fn, o - out_len, out_len);
                break;
            }
        }
    }
    munmap(out, map_len);
    munmap(in, in_len);
    close(fd);
    mon_flag(1);
    mon_count("hex_inputs_above_4GiB_encoded", 1);
}

/* ------------------------------------------------------------------ UTF-8 text of 2 GiB + a few bytes validated in one call
 * (chunk lengths must not pass through an int). Untouched anonymous memory = U+0000 code points; the text ends in U+00E9
 * U+20AC. One-piece decoding must report exactly len-3 code points with value sum 0xE9+0x20AC; with a lone 0xFF beyond the
 * 2 GiB mark, and again with one at offset 7, the text must be refused. */
static uint64_t s_cp_count, s_cp_sum;
static int count_cp(uint32_t cp, void *ud) {
    (void)ud;
    ++s_cp_count;
    s_cp_sum += cp;
    return AWS_OP_SUCCESS;
}
static void run_utf8_case(void) {
    struct mon_rng *r = &mon_case_rng;
    mon_fp(0x07F8);
    size_t len = ((size_t)1 << 31) + 16 + (size_t)mon_below(r, 16);
    uint8_t *text = mmap(NULL, len, PROT_READ | PROT_WRITE, MAP_PRIVATE | MAP_ANONYMOUS | MAP_NORESERVE, -1, 0);
    if (text == MAP_FAILED) {
        mon_count("giant_utf8_skipped_no_address_space", 1);
        return;
    }
    static const uint8_t TAILB[5] = {0xC3, 0xA9, 0xE2, 0x82, 0xAC};
    memcpy(text + len - 5, TAILB, 5);
    struct aws_utf8_decoder_options opt = {.on_codepoint = count_cp, .user_data = NULL};
    s_cp_count = s_cp_sum = 0;
    aws_reset_error();
    int rc = aws_decode_utf8(aws_byte_cursor_from_array(text, len), &opt);
    if (rc != AWS_OP_SUCCESS || s_cp_count != len - 3 || s_cp_sum != 0xE9 + 0x20AC) {
        mon_violation("C05:giant-utf8:decode", "aws_decode_utf8 of %zu bytes of well-formed text in one call: rc=%d (%s), %llu code points reported (expected %zu), value sum %llu (expected %u)",
                      len, rc, rc ? aws_error_name(aws_last_error()) : "-", (unsigned long long)s_cp_count, len - 3, (unsigned long long)s_cp_sum, 0xE9 + 0x20AC);
    }
    size_t bad_at[2] = {((size_t)1 << 31) + 3, 7};
    for (int k = 0; k < 2; ++k) {
        text[bad_at[k]] = 0xFF;
        aws_reset_error();
        rc = aws_decode_utf8(aws_byte_cursor_from_array(text, len), NULL);
        if (rc == AWS_OP_SUCCESS) {
            mon_violation("C05:giant-utf8:accepted-malformed", "text of %zu bytes with a lone 0xFF at offset %zu was accepted by aws_decode_utf8 in one call", len, bad_at[k]);
        } else if (aws_last_error() != AWS_ERROR_INVALID_UTF8) {
            mon_violation("C05:giant-utf8:error-code", "malformed giant text refused with error %d", aws_last_error());
        }
        text[bad_at[k]] = 0;
    }
    munmap(text, len);
    mon_flag(2);
    mon_count("utf8_texts_above_2GiB_decoded_in_one_call", 1);
}

int main(int argc, char **argv) {
    mon_init(argc, argv, "C05");
    aws_common_library_init(aws_default_allocator());
    mon_flag_name(0, "base64_text_above_4GiB_decoded_in_one_call");
    mon_flag_name(1, "hex_input_above_4GiB_encoded_in_one_call");
    mon_flag_name(2, "utf8_text_above_2GiB_decoded_in_one_call");
    uint64_t c;
    while (mon_next_case(&c)) {
        mon_case_begin(c);
        run_case();
        run_hex_case(c);
        run_utf8_case();
        mon_case_end(true);
    }
    return mon_finish();
}
