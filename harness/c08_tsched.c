/*
 * C08 - thread scheduler (DESIGN.md section 5, C08): real threads, client-boundary event log,
 * offline (post-scenario) checker: exactly-once by cancel class, RUN thread identity, not-early,
 * nothing-after-release, nothing lost, allocator balance; TSan / ASan+LSan from the build.
 */
#include "mon.h"
#include "perturb.h"

#include <aws/common/clock.h>
#include <aws/common/common.h>
#include <aws/common/task_scheduler.h>
#include <aws/common/thread.h>
#include <aws/common/thread_scheduler.h>

#include <pthread.h>
#include <sched.h>
#include <stdlib.h>
#include <time.h>

enum { EV_SCHED_CALL = 1, EV_SCHED_RET, EV_CANCEL_CALL, EV_CANCEL_RET, EV_INVOKE, EV_INVOKE_EXIT, EV_RELEASE_CALL, EV_RELEASE_RET, EV_FREED,
       EV_ACQUIRE };

enum { F_CANCEL_FAR, F_CANCEL_RACING, F_CANCEL_FROM_TASK, F_RELEASE_RIGHT_AFTER_SCHEDULE, F_PENDING_AT_RELEASE, F_SELF_RESCHEDULE,
       F_TASK_SCHEDULES_TASK, F_MULTI_CLIENT, F_FINAL_RELEASE_BY_CLIENT, F_RUN_THEN_CANCELED_AMBIGUOUS, F_RELEASE_WHEN_IDLE, F_TIMED_TASK_RAN, F_CANCEL_BEFORE_TIME, F_REENTER_FROM_CANCELED };

#define MAX_TASKS 96
#define MAX_CLIENTS 3
#define MAX_ACTIONS 64
#define FAR_NS (3600ULL * 1000000000ULL)

enum when { W_NOW, W_NEAR, W_FAR, W_PAST };
enum act_kind { A_SCHED, A_CANCEL, A_ACQ_REL, A_PAUSE };
enum fn_script { S_NONE, S_SCHED_CHILD, S_CANCEL_OTHER, S_SELF_RESCHED, S_BUSY, S_ON_CANCEL_REENTER };

struct vtask {
    struct aws_task task;
    int id;
    int owner; /* client index, or -1 when scheduled by a task function */
    enum when when;
    uint64_t near_delta_ns;
    enum fn_script script;
    int script_target; /* child task id / victim id */
    int script_target2; /* S_ON_CANCEL_REENTER: task scheduled from the cancelled callback */
    bool cancel_planned;
    bool cancel_from_task;
    uint32_t busy_us;           /* S_BUSY: the function keeps the scheduler thread busy this long when RUN */
    uint32_t slow_on_cancel_us; /* the function takes this long when invoked with CANCELED (a slow callback is legal) */
    /* written by whoever schedules (before the call), read by the task function (after the library's hand-over) */
    uint64_t sched_time[2];
    int incarnations; /* bumped by the scheduling thread before each schedule call */
    int resched_done;
    int done; /* set (release) when the task function is about to return */
};

struct action {
    enum act_kind kind;
    int task;
    uint32_t pause_us;
};

static struct {
    struct aws_thread_scheduler *sched;
    struct vtask tasks[MAX_TASKS];
    int ntasks;
    struct action actions[MAX_CLIENTS][MAX_ACTIONS];
    int nactions[MAX_CLIENTS];
    int nclients;
    bool clients_hold_refs;
    bool idle_style; /* nothing far in the future: the scheduler thread runs empty before the final release */
    uint64_t next_tix;
    pthread_t main_thread;
} S;

static __thread int t_my_tix = -1;

static void bind_self(void) {
    if (t_my_tix < 0) {
        t_my_tix = (int)__atomic_fetch_add(&S.next_tix, 1, __ATOMIC_RELAXED);
        mon_ev_bind((unsigned)t_my_tix);
    }
}

static uint64_t now_ns(void) {
    uint64_t t = 0;
    aws_high_res_clock_get_ticks(&t);
    return t;
}

static uint64_t s_stale_ts_now; /* schedule-now calls on a task object carrying an old non-zero time */
static void do_schedule(struct vtask *vt) {
    int inc = vt->incarnations++;
    uint64_t when = 0;
    switch (vt->when) {
        case W_NOW:
            when = 0;
            break;
        case W_NEAR:
            when = now_ns() + vt->near_delta_ns;
            break;
        case W_FAR:
            when = now_ns() + FAR_NS + vt->near_delta_ns;
            break;
        case W_PAST:
            when = now_ns() > 1000000 ? now_ns() - 1000000 : 1;
            break;
    }
    vt->sched_time[inc & 1] = when;
    mon_ev(EV_SCHED_CALL, (uint64_t)vt->id, (uint64_t)inc, when);
    if (when == 0) {
        if ((vt->id ^ inc) & 1) {
            /* a task object that was used before still carries the time of that use: schedule-now means now all the same */
            vt->task.timestamp = now_ns() + 2 * FAR_NS + 12345;
            __atomic_fetch_add(&s_stale_ts_now, 1, __ATOMIC_RELAXED);
        }
        aws_thread_scheduler_schedule_now(S.sched, &vt->task);
    } else {
        aws_thread_scheduler_schedule_future(S.sched, &vt->task, when);
    }
    mon_ev(EV_SCHED_RET, (uint64_t)vt->id, (uint64_t)inc, 0);
}

static void do_cancel(struct vtask *vt) {
    mon_ev(EV_CANCEL_CALL, (uint64_t)vt->id, 0, 0);
    aws_thread_scheduler_cancel_task(S.sched, &vt->task);
    /* clock read AFTER the call returned: if it is still below the task's time, the task was certainly pending */
    mon_ev(EV_CANCEL_RET, (uint64_t)vt->id, 0, now_ns());
}

static void task_fn(struct aws_task *task, void *arg, enum aws_task_status status) {
    uint64_t reading = now_ns();
    struct vtask *vt = arg;
    bind_self();
    (void)task;
    int inc = vt->incarnations - 1;
    uint64_t when = vt->sched_time[inc & 1];
    uint64_t early = (status == AWS_TASK_STATUS_RUN_READY && when != 0 && reading < when) ? 1 : 0;
    mon_ev(EV_INVOKE, (uint64_t)vt->id, (uint64_t)status | (early << 8), (uint64_t)(uintptr_t)pthread_self());
    if (status == AWS_TASK_STATUS_RUN_READY) {
        switch (vt->script) {
            case S_SCHED_CHILD:
                do_schedule(&S.tasks[vt->script_target]);
                break;
            case S_CANCEL_OTHER:
                do_cancel(&S.tasks[vt->script_target]);
                break;
            case S_SELF_RESCHED:
                if (!vt->resched_done) {
                    vt->resched_done = 1;
                    do_schedule(vt);
                }
                break;
            case S_BUSY: {
                struct timespec ts = {0, (long)vt->busy_us * 1000};
                nanosleep(&ts, NULL);
                break;
            }
            default:
                break;
        }
    } else if (vt->script == S_ON_CANCEL_REENTER) {
        /* a cancelled parent cancels its child and queues a follow-up: the scheduler is re-entered from a CANCELED callback */
        do_cancel(&S.tasks[vt->script_target]);
        do_schedule(&S.tasks[vt->script_target2]);
    } else if (vt->slow_on_cancel_us) {
        struct timespec ts = {0, (long)vt->slow_on_cancel_us * 1000};
        nanosleep(&ts, NULL);
    }
    mon_ev(EV_INVOKE_EXIT, (uint64_t)vt->id, 0, 0);
    __atomic_store_n(&vt->done, 1, __ATOMIC_RELEASE);
}

static void do_release(void) {
    mon_ev(EV_RELEASE_CALL, 0, 0, 0);
    aws_thread_scheduler_release(S.sched);
    mon_ev(EV_RELEASE_RET, 0, 0, 0);
}

static void *client_main(void *arg) {
    int ci = (int)(intptr_t)arg;
    perturb_bind((unsigned)(1 + ci));
    t_my_tix = 1 + ci;
    mon_ev_bind((unsigned)t_my_tix);
    for (int i = 0; i < S.nactions[ci]; ++i) {
        struct action *a = &S.actions[ci][i];
        switch (a->kind) {
            case A_SCHED:
                do_schedule(&S.tasks[a->task]);
                break;
            case A_CANCEL:
                do_cancel(&S.tasks[a->task]);
                break;
            case A_ACQ_REL:
                mon_ev(EV_ACQUIRE, 0, 0, 0);
                aws_thread_scheduler_acquire(S.sched);
                do_release();
                break;
            case A_PAUSE: {
                if (a->pause_us == 0) {
                    sched_yield();
                } else {
                    struct timespec ts = {0, (long)a->pause_us * 1000};
                    nanosleep(&ts, NULL);
                }
                break;
            }
        }
    }
    if (S.clients_hold_refs) {
        do_release();
    }
    return NULL;
}

static void release_hook(void *payload, size_t size, void *user) {
    (void)size;
    (void)user;
    if (payload == (void *)S.sched && t_my_tix >= 0) {
        mon_ev(EV_FREED, 0, 0, 0);
    }
}

/* ------------------------------------------------------------------ generation */
static void generate(struct mon_rng *r) {
    memset(S.tasks, 0, sizeof(S.tasks));
    S.nclients = 1 + (int)mon_below(r, MAX_CLIENTS);
    S.clients_hold_refs = mon_chance(r, 3, 10);
    S.idle_style = !S.clients_hold_refs && mon_chance(r, 2, 5);
    S.ntasks = 0;
    for (int c = 0; c < MAX_CLIENTS; ++c) {
        S.nactions[c] = 0;
    }
    int budget = 5 + (int)mon_below(r, 56);
    for (int c = 0; c < S.nclients; ++c) {
        int mine[MAX_TASKS];
        int nmine = 0;
        int nact = 2 + (int)mon_below(r, (uint64_t)(budget / S.nclients + 1));
        if (nact > MAX_ACTIONS - 2) {
            nact = MAX_ACTIONS - 2;
        }
        for (int i = 0; i < nact && S.ntasks < MAX_TASKS - 2; ++i) {
            struct action *a = &S.actions[c][S.nactions[c]];
            unsigned pick = (unsigned)mon_below(r, 100);
            if (pick < 60 || nmine == 0) {
                struct vtask *vt = &S.tasks[S.ntasks];
                vt->id = S.ntasks;
                vt->owner = c;
                unsigned w = (unsigned)mon_below(r, 100);
                vt->when = w < 40 ? W_NOW : w < 75 ? W_NEAR : w < 92 ? W_FAR : W_PAST;
                vt->near_delta_ns = mon_below(r, 3000000);
                if (S.idle_style) {
                    vt->when = w < 55 ? W_NOW : w < 90 ? W_NEAR : W_PAST;
                    vt->near_delta_ns = mon_below(r, 300000);
                }
                vt->script = S_NONE;
                unsigned sc = (unsigned)mon_below(r, 100);
                if (vt->when != W_FAR) {
                    if (sc < 12 && S.ntasks + 1 < MAX_TASKS - 2) {
                        /* schedules a fresh child */
                        struct vtask *ch = &S.tasks[S.ntasks + 1];
                        ch->id = S.ntasks + 1;
                        ch->owner = -1;
                        unsigned cw = (unsigned)mon_below(r, 100);
                        ch->when = cw < 50 ? W_NOW : cw < 85 ? W_NEAR : W_FAR;
                        ch->near_delta_ns = mon_below(r, 2000000);
                        if (S.idle_style) {
                            ch->when = cw < 60 ? W_NOW : W_NEAR;
                            ch->near_delta_ns = mon_below(r, 300000);
                        }
                        vt->script = S_SCHED_CHILD;
                        vt->script_target = ch->id;
                    } else if (sc < 30 && nmine > 0) {
                        /* cancels a task this client scheduled earlier */
                        for (int tries = 0; tries < 4; ++tries) {
                            struct vtask *victim = &S.tasks[mine[mon_below(r, (uint64_t)nmine)]];
                            if (!victim->cancel_planned && victim->script != S_SELF_RESCHED) {
                                victim->cancel_planned = true;
                                victim->cancel_from_task = true;
                                vt->script = S_CANCEL_OTHER;
                                vt->script_target = victim->id;
                                break;
                            }
                        }
                    } else if (sc < 38) {
                        vt->script = S_SELF_RESCHED;
                    } else if (sc < 50) {
                        vt->script = S_BUSY;
                        vt->busy_us = 200 + (uint32_t)mon_below(r, 4000);
                    }
                }
                if (mon_chance(r, 1, 6)) {
                    vt->slow_on_cancel_us = 200 + (uint32_t)mon_below(r, 3000);
                }
                a->kind = A_SCHED;
                a->task = vt->id;
                mine[nmine++] = vt->id;
                S.ntasks += (vt->script == S_SCHED_CHILD) ? 2 : 1;
            } else if (pick < 82) {
                struct vtask *victim = &S.tasks[mine[mon_below(r, (uint64_t)nmine)]];
                if (victim->cancel_planned || victim->script == S_SELF_RESCHED) {
                    a->kind = A_PAUSE;
                    a->pause_us = 0;
                } else {
                    victim->cancel_planned = true;
                    a->kind = A_CANCEL;
                    a->task = victim->id;
                }
            } else if (pick < 88) {
                a->kind = A_ACQ_REL;
            } else {
                a->kind = A_PAUSE;
                a->pause_us = mon_chance(r, 1, 2) ? 0 : (uint32_t)mon_below(r, 400);
            }
            mon_fp((uint64_t)a->kind * 131 + (uint64_t)a->task);
            ++S.nactions[c];
        }
    }
    for (int i = 0; i < S.ntasks; ++i) {
        mon_fp((uint64_t)S.tasks[i].when * 7 + (uint64_t)S.tasks[i].script);
    }
}

/* ------------------------------------------------------------------ checker */
struct tstate {
    int n_sched_calls;
    int n_run, n_cancel;
    uint64_t first_run_t, first_cancel_t, second_t;
    int first_status; /* 0 none, 1 run, 2 canceled */
    bool cancel_called;
    uint64_t cancel_ret_clock; /* 0: the cancel call has not returned (or never happened) */
    uint64_t cancel_call_t;
    unsigned cancel_tix;
    bool run_after_cancel_same_thread;
    bool early;
    uint64_t run_thread;
    unsigned run_tix;
    uint64_t last_invoke_t;
    int invocations_inc[2];
};

static void check_history(struct mon_event *ev, size_t n, const struct mon_alloc_stats *st0) {
    static struct tstate ts[MAX_TASKS];
    memset(ts, 0, sizeof(ts));
    uint64_t t_all_released = 0, t_freed = UINT64_MAX;
    int open_release[64];
    memset(open_release, 0, sizeof(open_release));
    uint64_t run_thread = 0;
    unsigned run_tix = 0;
    bool run_thread_mismatch = false;
    int n_release_calls = 0, n_release_rets = 0;
    for (size_t i = 0; i < n; ++i) {
        struct mon_event *e = &ev[i];
        struct tstate *t = (e->a < MAX_TASKS) ? &ts[e->a] : NULL;
        switch (e->kind) {
            case EV_SCHED_CALL:
                t->n_sched_calls++;
                break;
            case EV_CANCEL_CALL:
                t->cancel_called = true;
                t->cancel_call_t = e->t;
                t->cancel_tix = e->tix;
                break;
            case EV_CANCEL_RET:
                t->cancel_ret_clock = e->c;
                break;
            case EV_RELEASE_CALL:
                ++n_release_calls;
                if (e->tix < 64) {
                    open_release[e->tix]++;
                }
                break;
            case EV_RELEASE_RET:
                ++n_release_rets;
                if (e->tix < 64) {
                    open_release[e->tix]--;
                }
                t_all_released = e->t;
                break;
            case EV_FREED:
                t_freed = e->t;
                break;
            case EV_INVOKE: {
                int status = (int)(e->b & 0xff);
                bool early = (e->b >> 8) & 1;
                if (t_freed != UINT64_MAX) {
                    mon_violation("C08:invoked-after-destroy", "task %d invoked (status %d) after the scheduler's memory was released", (int)e->a, status);
                }
                if (status == AWS_TASK_STATUS_RUN_READY) {
                    t->n_run++;
                    if (early) {
                        t->early = true;
                    }
                    if (!run_thread) {
                        run_thread = e->c;
                        run_tix = e->tix;
                    } else if (run_thread != e->c) {
                        run_thread_mismatch = true;
                    }
                    if (t->cancel_called && t->cancel_tix == e->tix && t->cancel_call_t < e->t && t->n_run == 1 && t->n_cancel == 0) {
                        t->run_after_cancel_same_thread = true;
                    }
                    if (t->n_cancel > 0 && t->n_sched_calls < 2) {
                        mon_violation("C08:run-after-canceled", "task %d invoked with RUN after it had been invoked with CANCELED", (int)e->a);
                    }
                } else {
                    t->n_cancel++;
                    if (!t->cancel_called && (e->tix >= 64 || open_release[e->tix] <= 0)) {
                        mon_violation("C08:canceled-without-cancel",
                                      "task %d invoked with CANCELED although never cancelled and the invoking thread is not inside a release call", (int)e->a);
                    }
                }
                if (!t->first_status) {
                    t->first_status = status == AWS_TASK_STATUS_RUN_READY ? 1 : 2;
                }
                t->last_invoke_t = e->t;
                break;
            }
            default:
                break;
        }
    }
    if (run_thread_mismatch) {
        mon_violation("C08:run-on-different-threads", "RUN invocations were executed on more than one thread");
    }
    if (run_thread && (pthread_t)(uintptr_t)run_thread == S.main_thread) {
        mon_violation("C08:run-on-client-thread", "a task was invoked with RUN on the main (client) thread");
    }
    if (run_thread && run_tix >= 1 && run_tix <= (unsigned)S.nclients) {
        mon_violation("C08:run-on-client-thread", "a task was invoked with RUN on client thread %u", run_tix - 1);
    }
    MON_CHECK(n_release_calls == n_release_rets, "C08:release-did-not-return", "%d release calls, %d returns", n_release_calls, n_release_rets);
    MON_CHECK(t_freed != UINT64_MAX, "C08:scheduler-not-destroyed", "scheduler memory was not released by the last release");
    uint64_t n_pending_at_release = 0;
    for (int i = 0; i < S.ntasks; ++i) {
        struct tstate *t = &ts[i];
        struct vtask *vt = &S.tasks[i];
        int total = t->n_run + t->n_cancel;
        if (t->n_sched_calls == 0) {
            MON_CHECK(total == 0 || t->cancel_called, "C08:invoked-unscheduled", "task %d was never scheduled but invoked %d times", i, total);
            continue;
        }
        if (t->last_invoke_t > t_all_released && total > 0) {
            mon_violation("C08:invoked-after-release", "task %d was invoked after every release call had returned", i);
        }
        if (t->early) {
            mon_violation("C08:run-early", "task %d was invoked with RUN while the clock still read less than its time", i);
        }
        if (vt->script == S_SELF_RESCHED) {
            /* two incarnations when the first one ran; never cancelled by the harness */
            int expect = t->n_sched_calls;
            if (total != expect) {
                mon_violation(total < expect ? "C08:lost-task" : "C08:invoked-twice",
                              "self-rescheduling task %d: %d schedule calls, %d invocations (%d RUN, %d CANCELED)", i, expect, total, t->n_run, t->n_cancel);
            }
            mon_flag(F_SELF_RESCHEDULE);
            continue;
        }
        if (total == 0) {
            mon_violation("C08:lost-task", "task %d (%s, owner %d%s) was scheduled but never invoked, neither RUN nor CANCELED", i,
                          vt->when == W_NOW ? "now" : vt->when == W_NEAR ? "near" : vt->when == W_FAR ? "far" : "past", vt->owner,
                          t->cancel_called ? ", cancelled" : "");
            continue;
        }
        if (!t->cancel_called) {
            if (total != 1) {
                mon_violation("C08:invoked-twice", "task %d, never cancelled: %d RUN + %d CANCELED invocations", i, t->n_run, t->n_cancel);
            }
            if (t->n_cancel == 1 && t->n_run == 0) {
                ++n_pending_at_release;
                mon_flag(F_PENDING_AT_RELEASE);
            }
            if (t->n_run && vt->when == W_NEAR) {
                mon_flag(F_TIMED_TASK_RAN);
            }
            continue;
        }
        /* cancelled tasks */
        bool strict_a = vt->when == W_FAR;
        if (strict_a) {
            mon_flag(F_CANCEL_FAR);
            if (t->n_run != 0 || t->n_cancel != 1) {
                mon_violation("C08:strict-a:far-future-cancel", "task %d due in >1h was cancelled: %d RUN + %d CANCELED invocations (expected exactly one CANCELED)", i,
                              t->n_run, t->n_cancel);
            }
            continue;
        }
        if (vt->cancel_from_task) {
            mon_flag(F_CANCEL_FROM_TASK);
        } else {
            mon_flag(F_CANCEL_RACING);
        }
        /* strict (c): the cancel call had returned while the clock still read less than the task's time. A task is
         * never started before its time (checked separately), so it was pending when it was cancelled: exactly one
         * invocation, with CANCELED. (Single incarnation: self-rescheduling tasks are never cancelled.) */
        if (vt->sched_time[0] != 0 && t->cancel_ret_clock != 0 && t->cancel_ret_clock < vt->sched_time[0] && !t->early) {
            mon_flag(F_CANCEL_BEFORE_TIME);
            if (t->n_run != 0 || t->n_cancel != 1) {
                mon_violation(t->n_cancel ? "C08:strict-c:run-then-canceled" : "C08:strict-c:run-only",
                              "task %d (due %llu ns after its cancel call had returned) was invoked %d time(s) with RUN and %d time(s) with CANCELED; it was cancelled while "
                              "pending, so exactly one CANCELED invocation is required",
                              i, (unsigned long long)(vt->sched_time[0] - t->cancel_ret_clock), t->n_run, t->n_cancel);
            }
            continue;
        }
        if (t->run_after_cancel_same_thread) {
            /* the cancel was issued on the scheduler thread by another task before this one started: it was pending */
            if (t->n_cancel >= 1) {
                mon_violation("C08:strict-b:run-then-canceled",
                              "task %d was cancelled by a task running on the scheduler thread before it started (same batch), then invoked with RUN and again with CANCELED", i);
            } else {
                mon_violation("C08:strict-b:run-only", "task %d was cancelled on the scheduler thread before it started, yet invoked with RUN and never CANCELED", i);
            }
            continue;
        }
        /* ambiguous class: one invocation of either status, or RUN followed by CANCELED */
        if (t->n_run > 1 || t->n_cancel > 1) {
            mon_violation("C08:ambiguous:invoked-twice-same-status", "cancelled task %d: %d RUN + %d CANCELED invocations", i, t->n_run, t->n_cancel);
        } else if (t->n_run == 1 && t->n_cancel == 1) {
            if (t->first_status != 1) {
                mon_violation("C08:run-after-canceled", "cancelled task %d: CANCELED first, then RUN", i);
            }
            mon_flag(F_RUN_THEN_CANCELED_AMBIGUOUS);
            mon_count("ambiguous_run_then_canceled(not judged)", 1);
        } else if (t->n_cancel == 1) {
            mon_count("cancelled_while_pending_delivered_once", 1);
        } else {
            mon_count("cancel_lost_race_task_ran_once", 1);
        }
    }
    mon_count("tasks_pending_at_release_cancelled_by_cleanup", n_pending_at_release);
    mon_count("schedule_now_with_stale_timestamp_in_task", __atomic_exchange_n(&s_stale_ts_now, 0, __ATOMIC_RELAXED));
    struct mon_alloc_stats st1;
    mon_guard_stats(&st1);
    if (st1.live_blocks != st0->live_blocks) {
        mon_violation("C08:leak", "allocator imbalance after the final release: %lld blocks (%lld bytes) still live", (long long)(st1.live_blocks - st0->live_blocks),
                      (long long)(st1.live_bytes - st0->live_bytes));
    }
}

static void run_case(void) {
    struct mon_rng *r = &mon_case_rng;
    generate(r);
    int prof_idx = (int)mon_below(r, (uint64_t)perturb_nprofiles());
    uint64_t pseed = mon_rand(r);
    bool final_sched = mon_chance(r, 1, 2);
    bool main_releases_early = S.clients_hold_refs;
    mon_fp((uint64_t)prof_idx);
    mon_fp((uint64_t)S.nclients * 2 + S.clients_hold_refs);
    struct mon_alloc_stats st0;
    mon_guard_stats(&st0);
    mon_ev_reset(8, 4096);
    S.next_tix = 1 + MAX_CLIENTS;
    S.main_thread = pthread_self();
    t_my_tix = 0;
    mon_ev_bind(0);
    struct perturb_profile prof;
    perturb_get_profile(prof_idx, &prof);
    perturb_begin(pseed, &prof);
    perturb_bind(0);
    {
        char what[160];
        snprintf(what, sizeof(what), "%d clients, %d tasks, profile=%s: a release / schedule / cancel call did not return", S.nclients, S.ntasks,
                 perturb_profile_name(prof_idx));
        mon_watchdog_arm(120, "C08:hang", what);
    }
    S.sched = aws_thread_scheduler_new(mon_guard_allocator(), aws_default_thread_options());
    if (!S.sched) {
        perturb_end();
        mon_violation("C08:new-failed", "aws_thread_scheduler_new returned NULL");
        return;
    }
    mon_guard_set_release_hook(release_hook, NULL);
    for (int i = 0; i < S.ntasks; ++i) {
        aws_task_init(&S.tasks[i].task, task_fn, &S.tasks[i], "c08");
    }
    if (S.clients_hold_refs) {
        for (int c = 0; c < S.nclients; ++c) {
            mon_ev(EV_ACQUIRE, 0, 0, 0);
            aws_thread_scheduler_acquire(S.sched);
        }
    }
    pthread_t th[MAX_CLIENTS];
    for (int c = 0; c < S.nclients; ++c) {
        if (pthread_create(&th[c], NULL, client_main, (void *)(intptr_t)c)) {
            fprintf(stderr, "mon: pthread_create failed\n");
            exit(2);
        }
    }
    if (main_releases_early) {
        /* the last reference is dropped by whichever client finishes last, right after its last operation */
        do_release();
        mon_flag(F_FINAL_RELEASE_BY_CLIENT);
    }
    for (int c = 0; c < S.nclients; ++c) {
        pthread_join(th[c], NULL);
    }
    if (!main_releases_early && mon_chance(r, 1, 3) && S.ntasks + 5 < MAX_TASKS) {
        struct vtask *P = &S.tasks[S.ntasks], *C = &S.tasks[S.ntasks + 1], *F = &S.tasks[S.ntasks + 2], *probe = &S.tasks[S.ntasks + 3];
        memset(P, 0, 4 * sizeof(*P));
        for (int k = 0; k < 4; ++k) {
            struct vtask *vt = &S.tasks[S.ntasks + k];
            vt->id = S.ntasks + k;
            vt->owner = 9;
            vt->when = k < 2 ? W_FAR : W_NOW;
            vt->near_delta_ns = mon_below(r, 1000000);
            aws_task_init(&vt->task, task_fn, vt, "c08-reentry");
        }
        F->owner = -1;
        P->script = S_ON_CANCEL_REENTER;
        P->script_target = C->id;
        P->script_target2 = F->id;
        P->cancel_planned = true;
        C->cancel_planned = true;
        C->cancel_from_task = true;
        S.ntasks += 4;
        do_schedule(P);
        do_schedule(C);
        do_schedule(probe);
        uint64_t t0 = now_ns();
        while (!__atomic_load_n(&probe->done, __ATOMIC_ACQUIRE) && now_ns() - t0 < 5000000000ULL) {
        }
        do_cancel(P);
        /* the follow-up must run: wait for it (a scheduler thread stuck in the callback shows as the scenario watchdog) */
        while (!__atomic_load_n(&F->done, __ATOMIC_ACQUIRE)) {
            struct timespec ts = {0, 200000};
            nanosleep(&ts, NULL);
        }
        mon_flag(F_REENTER_FROM_CANCELED);
        mon_count("scheduler_reentered_from_a_CANCELED_callback", 1);
    }
    if (!main_releases_early) {
        if (final_sched && S.ntasks < MAX_TASKS) {
            /* history D6: schedule, then release immediately */
            struct vtask *vt = &S.tasks[S.ntasks];
            memset(vt, 0, sizeof(*vt));
            vt->id = S.ntasks++;
            vt->owner = 9;
            vt->when = mon_chance(r, 2, 3) ? W_NOW : W_NEAR;
            vt->near_delta_ns = mon_below(r, 500000);
            aws_task_init(&vt->task, task_fn, vt, "c08-last");
            bool wait_idle = S.idle_style && mon_chance(r, 3, 4);
            uint32_t gap = (uint32_t)mon_below(r, 6);
            if (wait_idle) {
                vt->when = W_NOW;
            }
            do_schedule(vt);
            if (wait_idle) {
                /* release while the scheduler thread, having run its last task, is about to go to sleep on an empty
                 * scheduler: the exit notification must not be lost between its last look and its wait */
                uint64_t t0 = now_ns();
                while (!__atomic_load_n(&vt->done, __ATOMIC_ACQUIRE) && now_ns() - t0 < 5000000000ULL) {
                }
                static const uint32_t GAP_NS[] = {0, 500, 2000, 8000, 30000, 120000};
                uint64_t t1 = now_ns();
                while (now_ns() - t1 < GAP_NS[gap]) {
                }
                mon_flag(F_RELEASE_WHEN_IDLE);
                mon_count("releases_right_after_the_last_task_returned", 1);
            } else {
                mon_flag(F_RELEASE_RIGHT_AFTER_SCHEDULE);
            }
        }
        do_release();
    }
    perturb_end();
    mon_watchdog_disarm();
    mon_guard_set_release_hook(NULL, NULL);
    if (S.nclients > 1) {
        mon_flag(F_MULTI_CLIENT);
    }
    for (int i = 0; i < S.ntasks; ++i) {
        if (S.tasks[i].script == S_SCHED_CHILD && S.tasks[S.tasks[i].script_target].incarnations > 0) {
            mon_flag(F_TASK_SCHEDULES_TASK);
        }
    }
    size_t n = 0;
    struct mon_event *ev = mon_ev_merge(&n);
    if (mon_ev_overflowed()) {
        fprintf(stderr, "mon: event log overflow\n");
        exit(2);
    }
    check_history(ev, n, &st0);
    if (mon_sampling()) {
        mon_sample("clients=%d tasks=%d profile=%s refs_by_clients=%d events=%zu sig=%016llx: ", S.nclients, S.ntasks, perturb_profile_name(prof_idx),
                   S.clients_hold_refs, n, (unsigned long long)perturb_signature());
        static const char *kn[] = {"", "S", "s", "C", "c", "INV", "inv", "REL", "rel", "FREED", "acq"};
        for (size_t i = 0; i < n && i < 120; ++i) {
            mon_sample("%s%u:%s%llu%s ", "", ev[i].tix, kn[ev[i].kind], (unsigned long long)ev[i].a,
                       ev[i].kind == EV_INVOKE ? ((ev[i].b & 0xff) == AWS_TASK_STATUS_RUN_READY ? "=RUN" : "=CANCELED") : "");
        }
    }
    mon_fp(perturb_signature());
    mon_distinct("interleaving_signatures", perturb_signature());

    mon_count("scenarios", 1);
    mon_count("tasks", (uint64_t)S.ntasks);
    mon_count("events", n);
    mon_count("sched_points", perturb_points());
    mon_count("sched_delays_injected", perturb_delays());
    mon_count("thread_switches_in_trace_prefix", perturb_switches());
    mon_count("spurious_wakeups_injected", perturb_spurious());
    free(ev);
}

int main(int argc, char **argv) {
    mon_init(argc, argv, "C08");
    aws_common_library_init(aws_default_allocator());
    /* start the watchdog thread while no perturbation / fault injection is active */
    mon_watchdog_arm(3600, "C08:hang", "startup");
    mon_watchdog_disarm();
    static const char *names[] = {"cancel_far_future_strict", "cancel_racing_by_client", "cancel_from_task_on_scheduler_thread", "release_right_after_schedule",
                                  "tasks_pending_at_release", "self_reschedule", "task_schedules_task", "multiple_clients", "final_release_by_client",
                                  "run_then_canceled_ambiguous", "release_right_after_last_task_returned_scheduler_empty", "timed_task_ran", "cancel_returned_before_task_time_strict",
                                  "cancel_and_schedule_from_a_CANCELED_callback"};
    for (int i = 0; i < (int)(sizeof(names) / sizeof(names[0])); ++i) {
        mon_flag_name(i, names[i]);
    }
    uint64_t c;
    while (mon_next_case(&c)) {
        mon_case_begin(c);
        run_case();
        mon_case_end(mon_flag_count() >= 3);
    }
    return mon_finish();
}
