/*
 * C01 - byte buffers and cursors stay in bounds; failed operations change nothing.
 * DESIGN.md section 5, C01: shadow model + snapshot-on-failure + canaries + release-time
 * inspection for the secure variants + ASan.
 *
 * A case = 1..60 calls on a pool of buffers (dynamic from the guard allocator, static views over
 * canary-fenced arrays, zero-capacity) and cursors (into fenced constant inputs, into pool buffers -
 * including the destination -, {NULL,0}).  For every call the model computes the documented outcome
 * first; after the call the harness compares return value, header-named error code, every struct
 * field, the bytes [0,len), all canaries / red zones, and - whenever the call reports failure - the
 * complete pre-call snapshot of [0,capacity) and of the cursor.
 *
 * Documented behaviour that a naive oracle would get wrong (encoded here, not alarmed on):
 *  - aws_byte_buf_advance nulls its *output* argument on failure;
 *  - aws_byte_buf_cat and aws_byte_cursor_split_on_char[_n] stop part-way (prefix stays appended / pushed);
 *  - aws_byte_buf_from_array / advance give buffer==NULL for a zero length;
 *  - the new capacity after append_dynamic / reserve_smart is only documented as "enough": the model
 *    checks capacity >= required and capacity <= size of the block actually obtained, and adopts it;
 *  - aws_byte_buf_reserve[_relative] document the exact capacity (== request);
 *  - bytes in [len,capacity) after a *successful* call are not compared (init_from_file documents a
 *    NUL there; nothing else is promised), they are compared after a failed one;
 *  - out-parameters (*var, *dst, first_find) are not inspected after a failure: the header promises
 *    nothing about them;
 *  - cursor advance / advance_nospec with a forged cursor->len above SIZE_MAX/2 and a small argument: the
 *    code refuses, the header is silent; either consistent outcome is accepted. With cursor->len ==
 *    SIZE_MAX/2 exactly the header demands an advance; advance_nospec used to report failure AND null the cursor
 *    (key C01:nospec:cursor-len-SIZE_MAX/2:failure-clobbers-cursor; repaired by repo commit 9c9036b, after which
 *    it refuses cleanly, which is accepted and counted);
 *  - split_on_char_n's header says input_str "will be updated" when the list fills up, but the
 *    parameter is const and the code never does; the model treats the input cursor as read-only.
 *
 * Left out: aws_byte_cursor_from_c_str, aws_byte_cursor_is_valid and aws_lookup_table_hex_to_num_get as
 * direct calls (reached indirectly), the AWS_BYTE_*_PRI macros, allocation-failure paths (the library
 * aborts on OOM), aliasing the header does not allow (cat with dest as a source, with_lookup / write with
 * a source inside the destination), genuinely huge buffers (> ~256 KiB), Windows-only code.
 */
#include "mon.h"

#include <aws/common/array_list.h>
#include <aws/common/byte_buf.h>
#include <aws/common/common.h>
#include <aws/common/error.h>
#include <aws/common/private/byte_buf.h>
#include <aws/common/string.h>

#include <stdlib.h>
#include <unistd.h>

#define NBUF 5
#define NCUR 6
#define NSRC 5
#define SRC_MAX 280
#define HALF (SIZE_MAX >> 1)
#define BIG_CAP 32768 /* buffers beyond this are no longer grown */
#define SPLIT_MAX 600

enum {
    F_GROW,
    F_GROW_ALIAS,
    F_SECURE_INSPECTED,
    F_FAIL_UNCHANGED,
    F_EXACT_FIT,
    F_ONE_SHORT,
    F_HUGE_ARG,
    F_FORGED,
    F_NULL_CURSOR,
    F_ZERO_CAP,
    F_STATIC,
    F_ALIAS_APPEND,
    F_UPDATE_ALIAS,
    F_CAT_PARTIAL,
    F_SPLIT_FULL,
    F_SPLIT_TRAILING,
    F_RESERVE_GREW,
    F_FILE,
    F_FILE_GROW,
    F_PARSE_OVERFLOW,
    F_NOSPEC,
    F_FIND_HIT,
    F_EQ_TRUE,
    F_SECURE_STATIC,
    F_CURSOR_EXHAUSTED,
    F_SUBBUF,
    F_BIG_GROWTH,
    F_SECURE_SHORT_UNALIGNED,
    F_CAT_DEST_AS_SOURCE,
    F_NFLAGS
};
static const char *s_flag_names[F_NFLAGS] = {
    "dynamic_growth",
    "dynamic_growth_source_inside_destination",
    "secure_release_inspected",
    "failed_call_snapshot_compared",
    "exact_fit_accepted",
    "one_short_refused",
    "huge_length_argument_refused",
    "forged_huge_field_refused",
    "null_cursor_used",
    "zero_capacity_buffer_used",
    "static_fenced_buffer_used",
    "append_source_inside_destination",
    "append_and_update_cursor_inside_destination",
    "cat_stopped_part_way",
    "split_static_list_filled_up",
    "split_trailing_separator",
    "reserve_reallocated",
    "file_read",
    "file_read_grew_past_hint",
    "number_parse_overflow",
    "nospec_mask_checked",
    "find_exact_hit",
    "comparison_equal",
    "secure_zero_on_static_storage",
    "cursor_read_to_exhaustion",
    "sub_buffer_from_advance_written",
    "dynamic_growth_of_buffer_of_16MiB_or_more",
    "secure_wipe_of_short_unaligned_view",
    "cat_with_destination_among_the_sources",
};

/* ------------------------------------------------------------------ state */
struct msrc {
    uint8_t *p;    /* fenced, handed to the library */
    uint8_t *copy; /* private copy = model bytes */
    size_t n;
};
static struct msrc s_src[NSRC];

enum { B_NONE, B_DYN, B_STATIC };
struct mbuf {
    int kind;
    struct aws_byte_buf b; /* the real object */
    uint8_t *sh;           /* expected bytes [0,len) */
    size_t sh_cap;
    size_t len, cap;
    struct aws_allocator *alloc;
    uint8_t *ptr; /* expected b.buffer */
    void *fence;  /* storage of a static view (mon_fence) */
    unsigned gen; /* bumped whenever storage moves or goes away */
};
static struct mbuf s_buf[NBUF];

enum { C_NULL, C_SRC, C_BUF };
struct mcur {
    struct aws_byte_cursor c; /* the real object */
    int kind, idx;
    size_t off, len;
    unsigned gen;
};
static struct mcur s_cur[NCUR];

static const char *s_op = "";
static bool s_bail;
static uint8_t *s_tmp;
static size_t s_tmp_cap;

/* ------------------------------------------------------------------ trace + violation with history */
static char s_trace[8192];
static size_t s_trace_len;

static void tr(const char *fmt, ...) __attribute__((format(printf, 1, 2)));
static void tr(const char *fmt, ...) {
    char one[320];
    va_list ap;
    va_start(ap, fmt);
    int n = vsnprintf(one, sizeof(one), fmt, ap);
    va_end(ap);
    if (n <= 0) {
        return;
    }
    if ((size_t)n >= sizeof(one)) {
        n = (int)sizeof(one) - 1;
    }
    if (s_trace_len + (size_t)n + 1 >= sizeof(s_trace)) {
        size_t keep = sizeof(s_trace) / 2;
        memmove(s_trace, s_trace + s_trace_len - keep, keep);
        s_trace_len = keep;
    }
    memcpy(s_trace + s_trace_len, one, (size_t)n);
    s_trace_len += (size_t)n;
    s_trace[s_trace_len] = 0;
    mon_sample("%s", one);
}

static void viol(const char *key, const char *fmt, ...) __attribute__((format(printf, 2, 3)));
static void viol(const char *key, const char *fmt, ...) {
    char msg[1600];
    va_list ap;
    va_start(ap, fmt);
    vsnprintf(msg, sizeof(msg), fmt, ap);
    va_end(ap);
    const char *tail = s_trace_len > 1900 ? s_trace + s_trace_len - 1900 : s_trace;
    mon_violation(key, "%s | calls so far:%s%s", msg, s_trace_len > 1900 ? " ..." : "", tail);
}

static uint8_t *tmp_need(size_t n) {
    if (n + 1 > s_tmp_cap) {
        s_tmp_cap = n * 2 + 256;
        s_tmp = realloc(s_tmp, s_tmp_cap);
    }
    return s_tmp;
}

static uint8_t lc(uint8_t c) {
    return (c >= 'A' && c <= 'Z') ? (uint8_t)(c + 32) : c;
}

/* ------------------------------------------------------------------ shadow helpers */
static void sh_reserve(struct mbuf *m, size_t n) {
    if (n + 1 > m->sh_cap) {
        m->sh_cap = n * 2 + 64;
        m->sh = realloc(m->sh, m->sh_cap);
    }
}

/* bytes may point into m->sh */
static void m_append(struct mbuf *m, const uint8_t *bytes, size_t n) {
    uint8_t *t = tmp_need(n);
    if (n) {
        memmove(t, bytes, n); /* bytes may already be the scratch area */
    }
    sh_reserve(m, m->len + n);
    if (n) {
        memcpy(m->sh + m->len, t, n);
    }
    m->len += n;
}

static uint8_t *cur_expected_ptr(const struct mcur *m) {
    switch (m->kind) {
        case C_SRC:
            return s_src[m->idx].p + m->off;
        case C_BUF:
            return s_buf[m->idx].ptr + m->off;
        default:
            return NULL;
    }
}

static const uint8_t *cur_bytes(const struct mcur *m) {
    switch (m->kind) {
        case C_SRC:
            return s_src[m->idx].copy + m->off;
        case C_BUF:
            return s_buf[m->idx].sh + m->off;
        default:
            return (const uint8_t *)"";
    }
}

static void cur_set(int ci, int kind, int idx, size_t off, size_t len) {
    struct mcur *m = &s_cur[ci];
    if (kind == C_BUF && s_buf[idx].ptr == NULL) {
        kind = C_NULL;
    }
    if (kind == C_NULL) {
        idx = 0;
        off = len = 0;
    }
    m->kind = kind;
    m->idx = idx;
    m->off = off;
    m->len = len;
    m->gen = kind == C_BUF ? s_buf[idx].gen : 0;
    if (kind == C_NULL) {
        m->c.ptr = NULL;
        m->c.len = 0;
    } else if (kind == C_BUF && off == 0 && len == s_buf[idx].len) {
        m->c = aws_byte_cursor_from_buf(&s_buf[idx].b);
    } else {
        m->c = aws_byte_cursor_from_array(cur_expected_ptr(m), len);
    }
}

/* cursors into a buffer stay usable only while its storage has not moved and they lie within [0,len) */
static void cursors_revalidate(void) {
    for (int ci = 0; ci < NCUR; ++ci) {
        struct mcur *m = &s_cur[ci];
        if (m->kind != C_BUF) {
            continue;
        }
        struct mbuf *b = &s_buf[m->idx];
        if (b->kind == B_NONE || b->gen != m->gen || m->off + m->len > b->len || b->ptr == NULL) {
            cur_set(ci, C_NULL, 0, 0, 0);
        }
    }
}

/* ------------------------------------------------------------------ comparison of real objects with the model */
static void check_buf(int i) {
    struct mbuf *m = &s_buf[i];
    if (m->kind == B_NONE) {
        return;
    }
    const struct aws_byte_buf *b = &m->b;
    if (b->len != m->len || b->capacity != m->cap || b->allocator != m->alloc || b->buffer != m->ptr) {
        viol(
            "C01:buf-fields",
            "after %s: buffer #%d has len=%zu capacity=%zu allocator=%s buffer %s; model: len=%zu capacity=%zu allocator=%s",
            s_op,
            i,
            b->len,
            b->capacity,
            b->allocator ? "set" : "NULL",
            b->buffer == m->ptr ? "as expected" : (b->buffer ? "at an unexpected address" : "NULL"),
            m->len,
            m->cap,
            m->alloc ? "set" : "NULL");
        s_bail = true;
        return;
    }
    if ((b->capacity == 0) != (b->buffer == NULL)) {
        viol("C01:buf-fields", "after %s: buffer #%d capacity=%zu but buffer is %s", s_op, i, b->capacity, b->buffer ? "non-NULL" : "NULL");
        s_bail = true;
        return;
    }
    if (b->len > b->capacity) {
        viol("C01:len-exceeds-capacity", "after %s: buffer #%d len %zu > capacity %zu", s_op, i, b->len, b->capacity);
        s_bail = true;
        return;
    }
    if (!aws_byte_buf_is_valid(b)) {
        viol("C01:buf-fields", "after %s: aws_byte_buf_is_valid is false for buffer #%d", s_op, i);
    }
    if (m->kind == B_DYN && b->buffer) {
        size_t blk = mon_guard_block_size(b->buffer);
        if (blk < b->capacity) {
            viol("C01:capacity-exceeds-block", "after %s: buffer #%d claims capacity %zu, its block has %zu bytes", s_op, i, b->capacity, blk);
            s_bail = true;
            return;
        }
    }
    if (m->len && memcmp(b->buffer, m->sh, m->len)) {
        size_t d = 0;
        while (b->buffer[d] == m->sh[d]) {
            ++d;
        }
        size_t from = d > 8 ? d - 8 : 0;
        size_t n = m->len - from > 24 ? 24 : m->len - from;
        viol(
            "C01:buf-contents",
            "after %s: buffer #%d (len %zu) differs from the model at byte %zu: bytes[%zu..]=%s expected %s",
            s_op,
            i,
            m->len,
            d,
            from,
            mon_hex(b->buffer + from, n, 24),
            mon_hex(m->sh + from, n, 24));
        s_bail = true;
    }
    if (m->fence && mon_fence_check(m->fence)) {
        viol("C01:canary", "after %s: canary next to the storage of static buffer #%d (capacity %zu) damaged", s_op, i, m->cap);
        s_bail = true;
    }
}

static void check_cur(int ci) {
    struct mcur *m = &s_cur[ci];
    uint8_t *ep = cur_expected_ptr(m);
    if (m->c.len != m->len || m->c.ptr != ep) {
        viol(
            "C01:cursor-fields",
            "after %s: cursor #%d has len=%zu ptr %s (delta %lld); model: len=%zu at offset %zu of %s #%d",
            s_op,
            ci,
            m->c.len,
            m->c.ptr == ep ? "as expected" : (m->c.ptr ? "elsewhere" : "NULL"),
            (m->c.ptr && ep) ? (long long)(m->c.ptr - ep) : 0LL,
            m->len,
            m->off,
            m->kind == C_SRC ? "input" : (m->kind == C_BUF ? "buffer" : "NULL"),
            m->idx);
        s_bail = true;
    }
}

static void check_all(void) {
    for (int i = 0; i < NBUF; ++i) {
        check_buf(i);
    }
    for (int i = 0; i < NCUR; ++i) {
        check_cur(i);
    }
    for (int i = 0; i < NSRC; ++i) {
        if (s_src[i].n && memcmp(s_src[i].p, s_src[i].copy, s_src[i].n)) {
            viol("C01:source-modified", "after %s: read-only input #%d (%zu bytes) was modified", s_op, i, s_src[i].n);
            memcpy(s_src[i].p, s_src[i].copy, s_src[i].n);
            s_bail = true;
        }
        if (mon_fence_check(s_src[i].p)) {
            viol("C01:canary", "after %s: canary next to read-only input #%d damaged", s_op, i);
            s_bail = true;
        }
    }
    if (mon_guard_check_live("C01")) {
        s_bail = true;
    }
}

/* ------------------------------------------------------------------ pre-call snapshots */
struct bsnap {
    struct aws_byte_buf b;
    uint8_t *bytes;
    size_t room;
};
static struct bsnap s_snap[2];
static uint64_t s_n_failchecks;

static void snap_take(int k, const struct aws_byte_buf *b) {
    struct bsnap *s = &s_snap[k];
    s->b = *b;
    if (b->buffer && b->capacity) {
        if (b->capacity > s->room) {
            s->room = b->capacity * 2;
            s->bytes = realloc(s->bytes, s->room);
        }
        memcpy(s->bytes, b->buffer, b->capacity);
    }
}

/* the call reported failure: nothing may differ from the snapshot */
static void snap_same(int k, const struct aws_byte_buf *b, const char *what) {
    struct bsnap *s = &s_snap[k];
    ++s_n_failchecks;
    mon_flag(F_FAIL_UNCHANGED);
    if (b->len != s->b.len || b->capacity != s->b.capacity || b->buffer != s->b.buffer || b->allocator != s->b.allocator) {
        viol(
            "C01:failed-op-changed-buffer",
            "%s reported failure but the buffer struct changed: len %zu->%zu capacity %zu->%zu buffer %s allocator %s",
            what,
            s->b.len,
            b->len,
            s->b.capacity,
            b->capacity,
            b->buffer == s->b.buffer ? "same" : "CHANGED",
            b->allocator == s->b.allocator ? "same" : "CHANGED");
        s_bail = true;
        return;
    }
    if (b->buffer && b->capacity && memcmp(s->bytes, b->buffer, b->capacity)) {
        size_t d = 0;
        while (s->bytes[d] == b->buffer[d]) {
            ++d;
        }
        viol(
            "C01:failed-op-changed-buffer",
            "%s reported failure but byte %zu of [0,capacity=%zu) changed from 0x%02x to 0x%02x (len %zu)",
            what,
            d,
            b->capacity,
            s->bytes[d],
            b->buffer[d],
            b->len);
        s_bail = true;
    }
}

static void cur_same(const struct aws_byte_cursor *before, const struct aws_byte_cursor *now, const char *what) {
    ++s_n_failchecks;
    mon_flag(F_FAIL_UNCHANGED);
    if (before->ptr != now->ptr || before->len != now->len) {
        viol(
            "C01:failed-op-changed-cursor",
            "%s reported failure but the cursor changed: len %zu->%zu ptr %s",
            what,
            before->len,
            now->len,
            before->ptr == now->ptr ? "same" : (now->ptr ? "moved" : "nulled"));
        s_bail = true;
    }
}

/* returns true when the outcome is the predicted one */
static bool outcome(const char *op, bool exp_ok, bool got_ok) {
    if (exp_ok == got_ok) {
        return true;
    }
    char key[96];
    snprintf(key, sizeof(key), "C01:outcome:%s", op);
    viol(key, "%s %s, the documented outcome is %s (last error %d)", op, got_ok ? "succeeded" : "failed", exp_ok ? "success" : "failure", aws_last_error());
    s_bail = true;
    return false;
}

static void expect_error(const char *op, int code) {
    if (aws_last_error() != code) {
        char key[96];
        snprintf(key, sizeof(key), "C01:error-code:%s", op);
        viol(key, "%s failed with error %d (%s), the header names %d (%s)", op, aws_last_error(), aws_error_name(aws_last_error()), code, aws_error_name(code));
    }
}

/* ------------------------------------------------------------------ release-time inspection (secure variants) */
static struct {
    bool armed, seen, had_nonzero;
    const uint8_t *ptr;
    size_t off, n;
    const char *op;
} s_sec;
static uint64_t s_n_sec, s_n_sec_nonzero, s_n_secure_views;

static void release_hook(void *payload, size_t size, void *user) {
    (void)user;
    if (!s_sec.armed || payload != (const void *)s_sec.ptr) {
        return;
    }
    s_sec.seen = true;
    size_t end = s_sec.off + s_sec.n;
    if (end > size) {
        viol("C01:secure-release-size", "%s: released block has %zu bytes, expected at least %zu", s_sec.op, size, end);
        end = size;
    }
    const uint8_t *p = payload;
    for (size_t i = s_sec.off; i < end; ++i) {
        if (p[i]) {
            viol(
                "C01:secure-release-nonzero",
                "%s: block of %zu bytes handed back to the allocator with non-zero byte 0x%02x at offset %zu (region [%zu,%zu) must be zero): %s",
                s_sec.op,
                size,
                p[i],
                i,
                s_sec.off,
                end,
                mon_hex(p + s_sec.off, end - s_sec.off, 32));
            break;
        }
    }
}

static void sec_arm(const char *op, const void *ptr, size_t off, size_t n) {
    s_sec.armed = ptr != NULL;
    s_sec.seen = false;
    s_sec.ptr = ptr;
    s_sec.off = off;
    s_sec.n = n;
    s_sec.op = op;
    s_sec.had_nonzero = false;
    if (ptr) {
        const uint8_t *p = ptr;
        for (size_t i = off; i < off + n; ++i) {
            if (p[i]) {
                s_sec.had_nonzero = true;
                break;
            }
        }
    }
}

static void sec_done(bool release_expected) {
    if (s_sec.armed) {
        if (s_sec.seen) {
            mon_flag(F_SECURE_INSPECTED);
            ++s_n_sec;
            s_n_sec_nonzero += s_sec.had_nonzero;
        } else if (release_expected) {
            viol("C01:secure-release-missing", "%s: the old block was not handed back to the allocator", s_sec.op);
        }
    }
    s_sec.armed = false;
}

/* ------------------------------------------------------------------ selection helpers */
static struct aws_allocator *rand_alloc(struct mon_rng *r) {
    return mon_chance(r, 1, 3) ? mon_guard_allocator_full() : mon_guard_allocator();
}

static int free_buf(void) {
    for (int i = 0; i < NBUF; ++i) {
        if (s_buf[i].kind == B_NONE) {
            return i;
        }
    }
    return -1;
}

/* random live buffer != except, or -1 */
static int live_buf(struct mon_rng *r, int except) {
    int start = (int)mon_below(r, NBUF);
    for (int k = 0; k < NBUF; ++k) {
        int i = (start + k) % NBUF;
        if (s_buf[i].kind != B_NONE && i != except) {
            return i;
        }
    }
    return -1;
}

static void note_buf_used(const struct mbuf *m) {
    if (m->cap == 0) {
        mon_flag(F_ZERO_CAP);
    }
    if (m->kind == B_STATIC && m->fence) {
        mon_flag(F_STATIC);
    }
}

static void reseat_cur(struct mon_rng *r, int ci, size_t hint, int forbid) {
    unsigned w = (unsigned)mon_below(r, 100);
    int kind = C_SRC, idx = 0;
    size_t avail = 0;
    if (w < 6) {
        cur_set(ci, C_NULL, 0, 0, 0);
        return;
    }
    if (w < 28) {
        int j = live_buf(r, forbid);
        if (j >= 0 && s_buf[j].ptr && s_buf[j].len <= 4096) {
            kind = C_BUF;
            idx = j;
            avail = s_buf[j].len;
        }
    }
    if (kind == C_SRC) {
        idx = (hint != SIZE_MAX && hint > 40) ? 0 : (int)mon_below(r, NSRC);
        avail = s_src[idx].n;
    }
    size_t len;
    if (hint != SIZE_MAX && mon_chance(r, 3, 4)) {
        switch (mon_below(r, 4)) {
            case 0:
            case 1:
                len = hint;
                break;
            case 2:
                len = hint < SIZE_MAX - 1 ? hint + 1 : hint;
                break;
            default:
                len = hint ? hint - 1 : 0;
                break;
        }
        if (len > avail) {
            len = avail;
        }
    } else {
        len = mon_edge_size(r, avail);
    }
    size_t slack = avail - len, off;
    switch (mon_below(r, 3)) {
        case 0:
            off = 0;
            break;
        case 1:
            off = slack;
            break;
        default:
            off = (size_t)mon_below(r, slack + 1);
            break;
    }
    cur_set(ci, kind, idx, off, len);
}

/* cursor slot to use as an argument. hint: preferred length (SIZE_MAX none); forbid: buffer it must not point into */
static int pick_cur(struct mon_rng *r, size_t hint, int forbid) {
    int ci = (int)mon_below(r, NCUR);
    struct mcur *m = &s_cur[ci];
    bool reseat = mon_chance(r, hint != SIZE_MAX ? 3 : 2, 5);
    if (m->kind == C_BUF && m->idx == forbid) {
        reseat = true;
    }
    if (reseat) {
        reseat_cur(r, ci, hint, forbid);
    }
    if (m->kind == C_NULL) {
        mon_flag(F_NULL_CURSOR);
    }
    mon_fp(((uint64_t)m->kind << 48) ^ ((uint64_t)m->idx << 40) ^ (m->off << 20) ^ m->len);
    return ci;
}

/* a second cursor slot different from ci, related to it with some probability (same range, twin input, prefix, sub-range) */
static int pick_cur_related(struct mon_rng *r, int ci, bool want_subrange) {
    int cj = (ci + 1 + (int)mon_below(r, NCUR - 1)) % NCUR;
    struct mcur *a = &s_cur[ci];
    unsigned w = (unsigned)mon_below(r, 100);
    if (a->kind == C_NULL || w < 30) {
        if (mon_chance(r, 1, 2)) {
            reseat_cur(r, cj, SIZE_MAX, -1);
        }
    } else if (want_subrange && a->len > 0) {
        size_t l = 1 + (size_t)mon_below(r, a->len < 4 ? a->len : 4);
        size_t o = (size_t)mon_below(r, a->len - l + 1);
        cur_set(cj, a->kind, a->idx, a->off + o, l);
    } else if (w < 50) {
        cur_set(cj, a->kind, a->idx, a->off, a->len);
    } else if (w < 75 && a->kind == C_SRC && (a->idx == 1 || a->idx == 2)) {
        cur_set(cj, C_SRC, a->idx == 1 ? 2 : 1, a->off, a->len); /* case-flipped twin */
    } else if (w < 90) {
        cur_set(cj, a->kind, a->idx, a->off, (size_t)mon_below(r, a->len + 1)); /* prefix */
    } else {
        reseat_cur(r, cj, SIZE_MAX, -1);
    }
    struct mcur *b = &s_cur[cj];
    if (b->kind == C_NULL) {
        mon_flag(F_NULL_CURSOR);
    }
    mon_fp(((uint64_t)b->kind << 48) ^ ((uint64_t)b->idx << 40) ^ (b->off << 20) ^ b->len);
    return cj;
}

/* length argument biased around the remaining room, optionally huge */
static size_t pick_len(struct mon_rng *r, size_t room, bool allow_huge) {
    unsigned w = (unsigned)mon_below(r, allow_huge ? 12 : 9);
    switch (w) {
        case 0:
        case 1:
            return room;
        case 2:
            return room + 1;
        case 3:
            return room ? room - 1 : 0;
        case 4:
            return 0;
        case 5:
            return 1;
        case 6:
        case 7:
        case 8:
            return (size_t)mon_below(r, room + 3);
        default: {
            static const size_t huge[] = {HALF, HALF + 1, SIZE_MAX - 1, SIZE_MAX, HALF - 1, SIZE_MAX - 7};
            return huge[mon_below(r, 6)];
        }
    }
}

static void note_fit(size_t room, size_t n, bool ok) {
    if (ok && n == room && n > 0) {
        mon_flag(F_EXACT_FIT);
    }
    if (!ok && n == room + 1) {
        mon_flag(F_ONE_SHORT);
    }
    if (!ok && n >= HALF - 1) {
        mon_flag(F_HUGE_ARG);
    }
}

/* ------------------------------------------------------------------ buffer lifecycle */
static void adopt(int i, int kind, struct aws_allocator *alloc, size_t len, size_t cap, void *fence) {
    struct mbuf *m = &s_buf[i];
    m->kind = kind;
    m->alloc = alloc;
    m->len = len;
    m->cap = cap;
    m->fence = fence;
    m->ptr = m->b.buffer; /* address is the library's choice; NULL-ness is checked against capacity */
    ++m->gen;
    sh_reserve(m, len);
    if (cap && !m->b.buffer) {
        viol("C01:buf-fields", "after %s: capacity %zu with a NULL buffer", s_op, cap);
        s_bail = true;
    }
}

static size_t pick_cap(struct mon_rng *r) {
    if (mon_chance(r, 1, 10)) {
        return mon_edge_size(r, 5000);
    }
    return mon_edge_size(r, 96);
}

static void op_init(struct mon_rng *r);

static void do_init_plain(struct mon_rng *r, int i) {
    struct mbuf *m = &s_buf[i];
    struct aws_allocator *a = rand_alloc(r);
    size_t cap = pick_cap(r);
    s_op = "init";
    mon_fp(0x100 + cap);
    memset(&m->b, 0x5A, sizeof(m->b));
    int rc = aws_byte_buf_init(&m->b, a, cap);
    tr(" init(#%d,%zu)", i, cap);
    if (!outcome(s_op, true, rc == AWS_OP_SUCCESS)) {
        return;
    }
    adopt(i, B_DYN, a, 0, cap, NULL);
}

static void do_init_copy(struct mon_rng *r, int i, int j) {
    struct mbuf *m = &s_buf[i], *src = &s_buf[j];
    struct aws_allocator *a = rand_alloc(r);
    s_op = "init_copy";
    mon_fp(0x200 + src->len);
    note_buf_used(src);
    memset(&m->b, 0x5A, sizeof(m->b));
    int rc = aws_byte_buf_init_copy(&m->b, a, &src->b);
    tr(" init_copy(#%d<-#%d len%zu cap%zu)", i, j, src->len, src->cap);
    if (!outcome(s_op, true, rc == AWS_OP_SUCCESS)) {
        return;
    }
    sh_reserve(m, src->len);
    memcpy(m->sh, src->sh, src->len);
    adopt(i, B_DYN, a, src->len, src->cap, NULL);
}

static void do_init_copy_from_cursor(struct mon_rng *r, int i) {
    struct mbuf *m = &s_buf[i];
    struct aws_allocator *a = rand_alloc(r);
    int ci = pick_cur(r, SIZE_MAX, -1);
    struct mcur *c = &s_cur[ci];
    s_op = "init_copy_from_cursor";
    mon_fp(0x300);
    memset(&m->b, 0x5A, sizeof(m->b));
    int rc = aws_byte_buf_init_copy_from_cursor(&m->b, a, c->c);
    tr(" init_copy_from_cursor(#%d<-c%d len%zu)", i, ci, c->len);
    if (!outcome(s_op, true, rc == AWS_OP_SUCCESS)) {
        return;
    }
    sh_reserve(m, c->len);
    memcpy(m->sh, cur_bytes(c), c->len);
    adopt(i, B_DYN, a, c->len, c->len, NULL);
}

static void do_init_cache(struct mon_rng *r, int i) {
    struct mbuf *m = &s_buf[i];
    struct aws_allocator *a = rand_alloc(r);
    s_op = "init_cache_and_update_cursors";
    mon_fp(0x400);
    if (mon_chance(r, 1, 8)) {
        /* documented failure: total length exceeds SIZE_MAX (forged lengths; nothing is read) */
        struct aws_byte_cursor t1 = {.ptr = s_src[0].p, .len = mon_chance(r, 1, 2) ? SIZE_MAX : HALF + 1};
        struct aws_byte_cursor t2 = {.ptr = s_src[0].p, .len = t1.len == SIZE_MAX ? 1 + (size_t)mon_below(r, 3) : HALF + 1};
        struct aws_byte_cursor b1 = t1, b2 = t2;
        struct mon_alloc_stats s0, s1;
        mon_guard_stats(&s0);
        struct aws_byte_buf tmp;
        memset(&tmp, 0x5A, sizeof(tmp));
        int rc = aws_byte_buf_init_cache_and_update_cursors(&tmp, a, &t1, &t2, NULL);
        tr(" init_cache(forged %zu+%zu)=%d", b1.len, b2.len, rc);
        mon_flag(F_FORGED);
        if (!outcome("init_cache_and_update_cursors(overflow)", false, rc == AWS_OP_SUCCESS)) {
            return;
        }
        cur_same(&b1, &t1, "init_cache_and_update_cursors");
        cur_same(&b2, &t2, "init_cache_and_update_cursors");
        mon_guard_stats(&s1);
        if (s1.live_blocks != s0.live_blocks) {
            viol("C01:leak", "failed init_cache_and_update_cursors left %lld block(s) allocated", (long long)(s1.live_blocks - s0.live_blocks));
        }
        return;
    }
    int k = (int)mon_below(r, 4);
    int ci[3];
    int first = (int)mon_below(r, NCUR);
    size_t total = 0;
    for (int q = 0; q < k; ++q) {
        ci[q] = (first + q) % NCUR;
        if (mon_chance(r, 1, 2)) {
            reseat_cur(r, ci[q], SIZE_MAX, -1);
        }
        if (s_cur[ci[q]].len > 4096) {
            reseat_cur(r, ci[q], 16, -1);
        }
        total += s_cur[ci[q]].len;
        mon_fp(s_cur[ci[q]].len);
    }
    memset(&m->b, 0x5A, sizeof(m->b));
    int rc;
    switch (k) {
        case 0:
            rc = aws_byte_buf_init_cache_and_update_cursors(&m->b, a, NULL);
            break;
        case 1:
            rc = aws_byte_buf_init_cache_and_update_cursors(&m->b, a, &s_cur[ci[0]].c, NULL);
            break;
        case 2:
            rc = aws_byte_buf_init_cache_and_update_cursors(&m->b, a, &s_cur[ci[0]].c, &s_cur[ci[1]].c, NULL);
            break;
        default:
            rc = aws_byte_buf_init_cache_and_update_cursors(&m->b, a, &s_cur[ci[0]].c, &s_cur[ci[1]].c, &s_cur[ci[2]].c, NULL);
            break;
    }
    tr(" init_cache(#%d,%d cursors,total %zu)", i, k, total);
    if (!outcome(s_op, true, rc == AWS_OP_SUCCESS)) {
        return;
    }
    sh_reserve(m, total);
    size_t pos = 0;
    for (int q = 0; q < k; ++q) {
        memcpy(m->sh + pos, cur_bytes(&s_cur[ci[q]]), s_cur[ci[q]].len);
        pos += s_cur[ci[q]].len;
    }
    adopt(i, B_DYN, a, total, total, NULL);
    pos = 0;
    for (int q = 0; q < k; ++q) {
        /* each cursor now references its copy inside the new buffer (NULL when the buffer is NULL) */
        struct mcur *c = &s_cur[ci[q]];
        size_t l = c->len;
        c->kind = m->ptr ? C_BUF : C_NULL;
        c->idx = m->ptr ? i : 0;
        c->off = m->ptr ? pos : 0;
        c->gen = m->gen;
        pos += l;
    }
}

static void do_view(struct mon_rng *r, int i) {
    struct mbuf *m = &s_buf[i];
    size_t n = mon_edge_size(r, 64);
    unsigned v = (unsigned)mon_below(r, 3);
    mon_fp(0x500 + v * 1000 + n);
    if (v == 0) {
        s_op = "from_array";
        uint8_t *st = mon_fence_new(n);
        mon_fill_random(r, st, n);
        m->b = aws_byte_buf_from_array(st, n);
        sh_reserve(m, n);
        memcpy(m->sh, st, n);
        adopt(i, B_STATIC, NULL, n, n, st);
        if (n && m->b.buffer != st) {
            viol("C01:buf-fields", "from_array: buffer does not point at the array");
        }
        tr(" from_array(#%d,%zu)", i, n);
    } else if (v == 1) {
        s_op = "from_empty_array";
        uint8_t *st = mon_fence_new(n);
        mon_fill_random(r, st, n);
        m->b = aws_byte_buf_from_empty_array(st, n);
        adopt(i, B_STATIC, NULL, 0, n, st);
        if (n && m->b.buffer != st) {
            viol("C01:buf-fields", "from_empty_array: buffer does not point at the array");
        }
        tr(" from_empty_array(#%d,%zu)", i, n);
    } else {
        s_op = "from_c_str";
        uint8_t *st = mon_fence_new(n + 1);
        for (size_t q = 0; q < n; ++q) {
            st[q] = (uint8_t)(1 + mon_below(r, 255));
        }
        st[n] = 0;
        m->b = aws_byte_buf_from_c_str((const char *)st);
        sh_reserve(m, n);
        memcpy(m->sh, st, n);
        adopt(i, B_STATIC, NULL, n, n, st);
        if (n && m->b.buffer != st) {
            viol("C01:buf-fields", "from_c_str: buffer does not point at the string");
        }
        tr(" from_c_str(#%d,%zu)", i, n);
    }
}

static void do_cleanup(struct mon_rng *r, int i, bool secure) {
    struct mbuf *m = &s_buf[i];
    s_op = secure ? "clean_up_secure" : "clean_up";
    mon_fp(0x600 + secure);
    note_buf_used(m);
    tr(" %s(#%d len%zu cap%zu)", s_op, i, m->len, m->cap);
    if (secure) {
        if (m->kind == B_DYN) {
            sec_arm(s_op, m->ptr, 0, m->cap);
        }
        aws_byte_buf_clean_up_secure(&m->b);
        if (m->kind == B_DYN) {
            sec_done(m->ptr != NULL);
        } else if (m->fence && m->cap) {
            /* storage the struct does not own is zeroed in place */
            const uint8_t *st = m->fence;
            for (size_t q = 0; q < m->cap; ++q) {
                if (st[q]) {
                    viol("C01:secure-zero-incomplete", "clean_up_secure left byte %zu of %zu of static storage non-zero", q, m->cap);
                    break;
                }
            }
            mon_flag(F_SECURE_STATIC);
        }
    } else {
        aws_byte_buf_clean_up(&m->b);
    }
    if (m->b.len || m->b.capacity || m->b.buffer || m->b.allocator) {
        viol("C01:buf-fields", "after %s the struct is not zeroed: len=%zu capacity=%zu", s_op, m->b.len, m->b.capacity);
    }
    if (m->fence) {
        if (mon_fence_check(m->fence)) {
            viol("C01:canary", "after %s: canary next to static storage (capacity %zu) damaged", s_op, m->cap);
        }
        mon_fence_free(m->fence);
        m->fence = NULL;
    }
    m->kind = B_NONE;
    m->ptr = NULL;
    m->len = m->cap = 0;
    ++m->gen;
    (void)r;
}

static void op_cleanup(struct mon_rng *r) {
    int i = live_buf(r, -1);
    if (i < 0) {
        op_init(r);
        return;
    }
    do_cleanup(r, i, mon_chance(r, 1, 2));
}

static void op_init(struct mon_rng *r) {
    int i = free_buf();
    if (i < 0) {
        op_cleanup(r);
        return;
    }
    int j = live_buf(r, i);
    switch (mon_below(r, 8)) {
        case 0:
        case 1:
            do_init_plain(r, i);
            break;
        case 2:
            if (j >= 0 && s_buf[j].cap <= BIG_CAP) {
                do_init_copy(r, i, j);
            } else {
                do_init_plain(r, i);
            }
            break;
        case 3:
            do_init_copy_from_cursor(r, i);
            break;
        case 4:
            do_init_cache(r, i);
            break;
        default:
            do_view(r, i);
            break;
    }
}

static void op_reset(struct mon_rng *r) {
    int i = live_buf(r, -1);
    if (i < 0) {
        op_init(r);
        return;
    }
    struct mbuf *m = &s_buf[i];
    unsigned v = (unsigned)mon_below(r, 3);
    note_buf_used(m);
    mon_fp(0x700 + v);
    if (v == 0) {
        s_op = "reset(false)";
        aws_byte_buf_reset(&m->b, false);
    } else if (v == 1) {
        s_op = "reset(true)";
        aws_byte_buf_reset(&m->b, true);
    } else {
        s_op = "secure_zero";
        aws_byte_buf_secure_zero(&m->b);
    }
    tr(" %s(#%d)", s_op, i);
    m->len = 0;
    if (v && m->ptr) {
        for (size_t q = 0; q < m->cap; ++q) {
            if (m->b.buffer[q]) {
                viol("C01:secure-zero-incomplete", "%s left byte %zu of capacity %zu non-zero", s_op, q, m->cap);
                break;
            }
        }
        if (m->kind == B_STATIC) {
            mon_flag(F_SECURE_STATIC);
        }
    }
}

/* ------------------------------------------------------------------ append family */
static uint8_t *s_table; /* fenced 256-byte random lookup table of this case */

static void op_append(struct mon_rng *r) {
    int i = live_buf(r, -1);
    if (i < 0) {
        op_init(r);
        return;
    }
    struct mbuf *m = &s_buf[i];
    note_buf_used(m);
    size_t room = m->cap - m->len;
    unsigned v = (unsigned)mon_below(r, 10); /* 0-5 append, 6-7 with_lookup, 8-9 append_and_update */
    bool lookup = v == 6 || v == 7, update = v >= 8;
    int ci = pick_cur(r, room, lookup ? i : -1);
    struct mcur *c = &s_cur[ci];
    struct aws_byte_cursor arg = c->c;
    bool forged = false;
    if (!lookup && !update && c->kind != C_NULL && mon_chance(r, 1, 16)) {
        /* a length no buffer can hold: must be refused by the remaining-space test before any copy */
        static const size_t huge[] = {SIZE_MAX, SIZE_MAX - 1, HALF + 1, HALF};
        arg.len = huge[mon_below(r, 4)];
        forged = true;
        mon_flag(F_FORGED);
    }
    size_t n = arg.len;
    bool alias = c->kind == C_BUF && c->idx == i;
    const uint8_t *table = mon_chance(r, 1, 2) ? aws_lookup_table_to_lower_get() : s_table;
    bool exp_ok = room >= n;
    s_op = lookup ? "append_with_lookup" : (update ? "append_and_update" : "append");
    mon_fp(0x800 + v);
    snap_take(0, &m->b);
    struct aws_byte_cursor before = c->c;
    mon_poison_last_error(&mon_case_rng);
    int rc;
    if (lookup) {
        rc = aws_byte_buf_append_with_lookup(&m->b, &c->c, table);
    } else if (update) {
        rc = aws_byte_buf_append_and_update(&m->b, &c->c);
    } else if (forged) {
        rc = aws_byte_buf_append(&m->b, &arg);
    } else {
        rc = aws_byte_buf_append(&m->b, &c->c);
    }
    tr(" %s(#%d room%zu,c%d len%zu%s)=%d", s_op, i, room, ci, n, alias ? " alias" : "", rc);
    note_fit(room, n, rc == AWS_OP_SUCCESS);
    if (rc != AWS_OP_SUCCESS) {
        snap_same(0, &m->b, s_op);
        cur_same(&before, &c->c, s_op);
    }
    if (!outcome(s_op, exp_ok, rc == AWS_OP_SUCCESS)) {
        return;
    }
    if (!exp_ok) {
        expect_error(s_op, AWS_ERROR_DEST_COPY_TOO_SMALL);
        return;
    }
    size_t old_len = m->len;
    if (lookup) {
        uint8_t *t = tmp_need(n);
        const uint8_t *sb = cur_bytes(c);
        for (size_t q = 0; q < n; ++q) {
            t[q] = table[sb[q]];
        }
        sh_reserve(m, m->len + n);
        memcpy(m->sh + m->len, t, n);
        m->len += n;
    } else {
        m_append(m, cur_bytes(c), n);
    }
    if (alias && n) {
        mon_flag(F_ALIAS_APPEND);
    }
    if (update) {
        if (alias) {
            mon_flag(F_UPDATE_ALIAS);
        }
        /* the cursor now references the copy: buffer + (new len - n), or NULL for a NULL buffer */
        if (m->ptr) {
            c->kind = C_BUF;
            c->idx = i;
            c->off = old_len;
            c->gen = m->gen;
        } else {
            c->kind = C_NULL;
            c->idx = 0;
            c->off = 0;
        }
    }
    /* plain append: the source cursor is const; check_all compares it with the unchanged model */
}

/* -1 refused, 0 fits in place, 1 grows */
static int predict_dyn(const struct mbuf *m, size_t n) {
    if (!m->alloc) {
        return -1;
    }
    if (m->cap - m->len >= n) {
        return 0;
    }
    size_t missing = n - (m->cap - m->len);
    if (missing > SIZE_MAX - m->cap) {
        return -1;
    }
    return 1;
}

static void op_append_dynamic(struct mon_rng *r) {
    int i = live_buf(r, -1);
    if (i < 0 || s_buf[i].cap > BIG_CAP) {
        op_init(r);
        return;
    }
    struct mbuf *m = &s_buf[i];
    note_buf_used(m);
    size_t room = m->cap - m->len;
    unsigned v = (unsigned)mon_below(r, 12); /* 0-3 dynamic, 4-6 dynamic_secure, 7-8 byte, 9-10 byte_secure, 11 null terminator */
    bool secure = (v >= 4 && v <= 6) || v == 9 || v == 10;
    bool is_byte = v >= 7 && v <= 10, is_nul = v == 11;
    int ci = -1;
    struct mcur *c = NULL;
    struct aws_byte_cursor arg = {0, NULL}, before = {0, NULL};
    uint8_t byte = (uint8_t)mon_below(r, 256);
    const uint8_t *src_bytes;
    size_t n;
    bool alias = false, forged = false;
    if (is_byte || is_nul) {
        if (is_nul) {
            byte = 0;
        }
        src_bytes = &byte;
        n = 1;
    } else {
        ci = pick_cur(r, room, -1);
        c = &s_cur[ci];
        arg = before = c->c;
        if (c->kind != C_NULL && m->len > 0 && m->alloc && mon_chance(r, 1, 16)) {
            /* capacity + missing overflows size_t: documented failure; len+n > SIZE_MAX by construction */
            arg.len = SIZE_MAX - (size_t)mon_below(r, m->len < 4 ? m->len : 4);
            forged = true;
            mon_flag(F_FORGED);
        }
        n = arg.len;
        src_bytes = cur_bytes(c);
        alias = c->kind == C_BUF && c->idx == i;
    }
    int pred = predict_dyn(m, n);
    static const char *names[] = {"append_dynamic", "append_dynamic_secure", "append_byte_dynamic", "append_byte_dynamic_secure", "append_null_terminator"};
    s_op = is_nul ? names[4] : names[(is_byte ? 2 : 0) + (secure ? 1 : 0)];
    mon_fp(0x900 + v);
    snap_take(0, &m->b);
    if (secure && pred == 1) {
        sec_arm(s_op, m->ptr, 0, m->cap);
    }
    mon_poison_last_error(&mon_case_rng);
    int rc;
    if (is_nul) {
        rc = aws_byte_buf_append_null_terminator(&m->b);
    } else if (is_byte) {
        rc = secure ? aws_byte_buf_append_byte_dynamic_secure(&m->b, byte) : aws_byte_buf_append_byte_dynamic(&m->b, byte);
    } else {
        const struct aws_byte_cursor *a = forged ? &arg : &c->c;
        rc = secure ? aws_byte_buf_append_dynamic_secure(&m->b, a) : aws_byte_buf_append_dynamic(&m->b, a);
    }
    tr(" %s(#%d len%zu cap%zu,%s%d n%zu%s)=%d", s_op, i, m->len, m->cap, c ? "c" : "byte", c ? ci : byte, n, alias ? " alias" : "", rc);
    if (secure && pred == 1) {
        sec_done(m->ptr != NULL && rc == AWS_OP_SUCCESS);
    }
    if (rc != AWS_OP_SUCCESS) {
        snap_same(0, &m->b, s_op);
        if (c && !forged) {
            cur_same(&before, &c->c, s_op);
        }
        if (n >= HALF) {
            mon_flag(F_HUGE_ARG);
        }
    }
    if (!outcome(s_op, pred >= 0, rc == AWS_OP_SUCCESS) || pred < 0) {
        return;
    }
    if (n == room && n) {
        mon_flag(F_EXACT_FIT);
    }
    size_t need = m->len + n;
    m_append(m, src_bytes, n);
    if (pred == 1) {
        /* grown: new storage, capacity only documented as sufficient */
        if (m->b.capacity < need) {
            viol("C01:growth-capacity", "%s: capacity %zu after growing, %zu needed", s_op, m->b.capacity, need);
            s_bail = true;
        }
        m->cap = m->b.capacity;
        m->ptr = m->b.buffer;
        ++m->gen;
        mon_flag(F_GROW);
        if (alias && n) {
            mon_flag(F_GROW_ALIAS);
        }
    } else if (alias && n) {
        mon_flag(F_ALIAS_APPEND);
    }
}

static void op_cat(struct mon_rng *r) {
    int i = live_buf(r, -1);
    if (i < 0) {
        op_init(r);
        return;
    }
    struct mbuf *m = &s_buf[i];
    int k = 1 + (int)mon_below(r, 3), src[3];
    for (int q = 0; q < k; ++q) {
        /* the destination itself may be one of the sources (doubling a buffer): each source is appended as it is at that
         * moment, the space test is made per source */
        if (mon_chance(r, 1, 5)) {
            src[q] = i;
            mon_flag(F_CAT_DEST_AS_SOURCE);
        } else {
            src[q] = live_buf(r, i);
        }
        if (src[q] < 0) {
            op_init(r);
            return;
        }
        mon_fp(s_buf[src[q]].len);
    }
    note_buf_used(m);
    s_op = "cat";
    mon_fp(0xA00 + k);
    snap_take(0, &m->b);
    mon_poison_last_error(&mon_case_rng);
    int rc;
    if (k == 1) {
        rc = aws_byte_buf_cat(&m->b, 1, &s_buf[src[0]].b);
    } else if (k == 2) {
        rc = aws_byte_buf_cat(&m->b, 2, &s_buf[src[0]].b, &s_buf[src[1]].b);
    } else {
        rc = aws_byte_buf_cat(&m->b, 3, &s_buf[src[0]].b, &s_buf[src[1]].b, &s_buf[src[2]].b);
    }
    tr(" cat(#%d room%zu <-", i, m->cap - m->len);
    /* documented: stops at the first source that does not fit; what fitted before stays appended */
    bool exp_ok = true;
    int done = 0;
    for (int q = 0; q < k; ++q) {
        struct mbuf *s = &s_buf[src[q]];
        tr(" #%d:%zu", src[q], s->len);
        if (m->cap - m->len < s->len) {
            exp_ok = false;
            break;
        }
        m_append(m, s->sh, s->len);
        ++done;
    }
    tr(")=%d", rc);
    if (!exp_ok && done > 0 && m->len != s_snap[0].b.len) {
        mon_flag(F_CAT_PARTIAL);
    }
    if (!outcome(s_op, exp_ok, rc == AWS_OP_SUCCESS)) {
        return;
    }
    if (!exp_ok) {
        expect_error(s_op, AWS_ERROR_DEST_COPY_TOO_SMALL);
        if (done == 0) {
            snap_same(0, &m->b, s_op);
        }
    }
}

/* ------------------------------------------------------------------ reserve family */
static void op_reserve(struct mon_rng *r) {
    int i = live_buf(r, -1);
    if (i < 0 || s_buf[i].cap > BIG_CAP) {
        op_init(r);
        return;
    }
    struct mbuf *m = &s_buf[i];
    note_buf_used(m);
    unsigned v = (unsigned)mon_below(r, 4);
    static const char *names[] = {"reserve", "reserve_relative", "reserve_smart", "reserve_smart_relative"};
    s_op = names[v];
    bool relative = v & 1, smart = v >= 2;
    size_t base = relative ? m->len : 0;
    size_t arg;
    bool overflow = false;
    if (relative && m->len > 0 && mon_chance(r, 1, 8)) {
        arg = SIZE_MAX - (size_t)mon_below(r, m->len < 4 ? m->len : 4); /* len + arg overflows */
        overflow = true;
    } else {
        size_t cur = m->cap - base; /* argument at which request == capacity */
        switch (mon_below(r, 6)) {
            case 0:
                arg = cur;
                break;
            case 1:
                arg = cur + 1;
                break;
            case 2:
                arg = cur ? cur - 1 : 0;
                break;
            case 3:
                arg = 0;
                break;
            case 4:
                arg = cur + (size_t)mon_below(r, 200);
                break;
            default:
                arg = mon_edge_size(r, 2 * m->cap + 40);
                break;
        }
    }
    size_t req = base + arg; /* not used when overflow */
    /* model */
    bool exp_ok, grows = false;
    if (smart) {
        if (overflow) {
            exp_ok = false;
        } else if (req <= m->cap) {
            exp_ok = true;
        } else {
            exp_ok = m->alloc != NULL;
            grows = exp_ok;
        }
    } else {
        if (!m->alloc || overflow) {
            exp_ok = false; /* no allocator: nothing to reserve from */
        } else {
            exp_ok = true;
            grows = req > m->cap;
        }
    }
    mon_fp(0xB00 + v);
    mon_fp(arg);
    snap_take(0, &m->b);
    mon_poison_last_error(&mon_case_rng);
    int rc;
    switch (v) {
        case 0:
            rc = aws_byte_buf_reserve(&m->b, arg);
            break;
        case 1:
            rc = aws_byte_buf_reserve_relative(&m->b, arg);
            break;
        case 2:
            rc = aws_byte_buf_reserve_smart(&m->b, arg);
            break;
        default:
            rc = aws_byte_buf_reserve_smart_relative(&m->b, arg);
            break;
    }
    tr(" %s(#%d len%zu cap%zu,%zu)=%d", s_op, i, m->len, m->cap, arg, rc);
    if (rc != AWS_OP_SUCCESS) {
        snap_same(0, &m->b, s_op);
        if (overflow) {
            mon_flag(F_HUGE_ARG);
        }
    }
    if (!m->alloc && !smart && !overflow && req <= m->cap) {
        /* header: "capacity already larger: does nothing"; code: refuses a buffer without allocator.
         * Both leave the buffer as it was, which is all the property asks for. */
        if (rc == AWS_OP_SUCCESS) {
            snap_same(0, &m->b, s_op);
        }
        return;
    }
    if (!outcome(s_op, exp_ok, rc == AWS_OP_SUCCESS) || !exp_ok) {
        return;
    }
    if (!grows) {
        if (m->b.buffer != m->ptr || m->b.capacity != m->cap) {
            viol("C01:reserve-no-op", "%s with request %zu <= capacity %zu changed the storage (capacity now %zu)", s_op, req, m->cap, m->b.capacity);
            s_bail = true;
        }
        return;
    }
    mon_flag(F_RESERVE_GREW);
    if (smart) {
        if (m->b.capacity < req) {
            viol("C01:growth-capacity", "%s: capacity %zu after growing, %zu requested", s_op, m->b.capacity, req);
            s_bail = true;
        }
        m->cap = m->b.capacity;
    } else {
        m->cap = req; /* documented: capacity becomes the request */
    }
    m->ptr = m->b.buffer;
    ++m->gen;
}

/* ------------------------------------------------------------------ write family */
static void put_be(uint8_t *out, uint64_t v, int nbytes) {
    for (int q = 0; q < nbytes; ++q) {
        out[q] = (uint8_t)(v >> (8 * (nbytes - 1 - q)));
    }
}

static uint64_t edge_u64(struct mon_rng *r) {
    switch (mon_below(r, 6)) {
        case 0:
            return 0;
        case 1:
            return UINT64_MAX;
        case 2:
            return (uint64_t)1 << mon_below(r, 64);
        case 3:
            return 0x0102030405060708ULL;
        default:
            return mon_rand(r);
    }
}

static void op_write(struct mon_rng *r) {
    int i = live_buf(r, -1);
    if (i < 0) {
        op_init(r);
        return;
    }
    struct mbuf *m = &s_buf[i];
    note_buf_used(m);
    size_t room = m->cap - m->len;
    unsigned v = (unsigned)mon_below(r, 14);
    uint8_t bytes[8];
    const uint8_t *src_bytes = bytes;
    size_t n = 0;
    bool exp_ok;
    bool rv;
    mon_fp(0xC00 + v);
    snap_take(0, &m->b);
    if (v <= 2) {
        /* write(buf, src, len) with len up to SIZE_MAX */
        s_op = "write";
        int ci = pick_cur(r, room, i);
        struct mcur *c = &s_cur[ci];
        n = c->len;
        if (c->kind != C_NULL && mon_chance(r, 1, 6)) {
            n = pick_len(r, room, true);
            if (n > c->len && !(n > HALF || n > room)) {
                n = c->len; /* only lengths that must be refused (nothing is read) may exceed the source */
            }
        }
        src_bytes = cur_bytes(c);
        exp_ok = n == 0 || (n <= HALF && n <= room);
        rv = aws_byte_buf_write(&m->b, c->c.ptr, n);
        tr(" write(#%d room%zu,c%d,%zu)=%d", i, room, ci, n, rv);
    } else if (v == 3) {
        s_op = "write_from_whole_cursor";
        int ci = pick_cur(r, room, i);
        struct mcur *c = &s_cur[ci];
        n = c->len;
        src_bytes = cur_bytes(c);
        exp_ok = n <= room;
        if (c->kind != C_NULL && n <= 4096 && mon_chance(r, 1, 3)) {
            /* the same operation through its aws_string entry point (copy of the cursor's bytes) */
            s_op = "write_from_whole_string";
            struct aws_string *str = aws_string_new_from_cursor(mon_guard_allocator(), &c->c);
            struct aws_byte_cursor back = aws_byte_cursor_from_string(str);
            if (back.len != n || (n && memcmp(back.ptr, src_bytes, n))) {
                mon_violation("C01:string-copy", "aws_string_new_from_cursor/aws_byte_cursor_from_string: %zu bytes in, %zu bytes out or contents differ", n, back.len);
            }
            rv = aws_byte_buf_write_from_whole_string(&m->b, str);
            aws_string_destroy(str);
            tr(" write_from_whole_string(#%d room%zu,c%d len%zu)=%d", i, room, ci, n, rv);
        } else {
            rv = aws_byte_buf_write_from_whole_cursor(&m->b, c->c);
            tr(" write_from_whole_cursor(#%d room%zu,c%d len%zu)=%d", i, room, ci, n, rv);
        }
    } else if (v == 4) {
        s_op = "write_from_whole_buffer";
        int j = live_buf(r, i);
        if (j < 0) {
            op_init(r);
            return;
        }
        n = s_buf[j].len;
        src_bytes = s_buf[j].sh;
        exp_ok = n <= room;
        rv = aws_byte_buf_write_from_whole_buffer(&m->b, s_buf[j].b);
        tr(" write_from_whole_buffer(#%d room%zu,#%d len%zu)=%d", i, room, j, n, rv);
    } else if (v == 5) {
        s_op = "write_u8";
        bytes[0] = (uint8_t)mon_below(r, 256);
        n = 1;
        exp_ok = room >= 1;
        rv = aws_byte_buf_write_u8(&m->b, bytes[0]);
        tr(" write_u8(#%d room%zu)=%d", i, room, rv);
    } else if (v <= 7) {
        s_op = "write_u8_n";
        uint8_t cbyte = (uint8_t)mon_below(r, 256);
        n = pick_len(r, room, true);
        exp_ok = n <= HALF && n <= room;
        rv = aws_byte_buf_write_u8_n(&m->b, cbyte, n);
        tr(" write_u8_n(#%d room%zu,0x%02x,%zu)=%d", i, room, cbyte, n, rv);
        if (exp_ok) {
            uint8_t *t = tmp_need(n);
            memset(t, cbyte, n);
            src_bytes = t;
        }
    } else {
        uint64_t x = edge_u64(r);
        switch (v) {
            case 8:
                s_op = "write_be16";
                n = 2;
                put_be(bytes, x & 0xFFFF, 2);
                exp_ok = room >= 2;
                rv = aws_byte_buf_write_be16(&m->b, (uint16_t)x);
                break;
            case 9:
                s_op = "write_be24";
                n = 3;
                if (mon_chance(r, 2, 3)) {
                    x &= 0xFFFFFF;
                } else {
                    x &= 0xFFFFFFFF;
                }
                put_be(bytes, x, 3);
                exp_ok = room >= 3 && x <= 0xFFFFFF; /* documented: value must fit in 3 bytes */
                rv = aws_byte_buf_write_be24(&m->b, (uint32_t)x);
                break;
            case 10:
                s_op = "write_be32";
                n = 4;
                put_be(bytes, x & 0xFFFFFFFF, 4);
                exp_ok = room >= 4;
                rv = aws_byte_buf_write_be32(&m->b, (uint32_t)x);
                break;
            case 11:
                s_op = "write_be64";
                n = 8;
                put_be(bytes, x, 8);
                exp_ok = room >= 8;
                rv = aws_byte_buf_write_be64(&m->b, x);
                break;
            case 12: {
                s_op = "write_float_be32";
                n = 4;
                float f = (float)(int64_t)(x >> 20) / 1024.0f;
                if (mon_chance(r, 1, 4)) {
                    f = -f / 3.0f;
                }
                uint32_t bits;
                memcpy(&bits, &f, 4);
                put_be(bytes, bits, 4);
                exp_ok = room >= 4;
                rv = aws_byte_buf_write_float_be32(&m->b, f);
                break;
            }
            default: {
                s_op = "write_float_be64";
                n = 8;
                double d = (double)(int64_t)x / 4096.0;
                uint64_t bits;
                memcpy(&bits, &d, 8);
                put_be(bytes, bits, 8);
                exp_ok = room >= 8;
                rv = aws_byte_buf_write_float_be64(&m->b, d);
                break;
            }
        }
        tr(" %s(#%d room%zu,0x%llx)=%d", s_op, i, room, (unsigned long long)x, rv);
    }
    note_fit(room, n, rv);
    if (!rv) {
        snap_same(0, &m->b, s_op);
    }
    if (!outcome(s_op, exp_ok, rv) || !exp_ok) {
        return;
    }
    m_append(m, src_bytes, n);
}

static void op_write_to_capacity(struct mon_rng *r) {
    int i = live_buf(r, -1);
    if (i < 0) {
        op_init(r);
        return;
    }
    struct mbuf *m = &s_buf[i];
    note_buf_used(m);
    size_t room = m->cap - m->len;
    int ci = pick_cur(r, room, i);
    struct mcur *c = &s_cur[ci];
    size_t n = c->len < room ? c->len : room;
    s_op = "write_to_capacity";
    mon_fp(0xD00);
    struct aws_byte_cursor before = c->c;
    snap_take(0, &m->b);
    struct aws_byte_cursor w = aws_byte_buf_write_to_capacity(&m->b, &c->c);
    tr(" write_to_capacity(#%d room%zu,c%d len%zu)->%zu", i, room, ci, c->len, w.len);
    if (w.len != n || (n && w.ptr != before.ptr)) {
        viol("C01:write-to-capacity", "returned cursor len %zu ptr %s; expected the first %zu byte(s) of the argument", w.len, w.ptr == before.ptr ? "same" : "different", n);
        s_bail = true;
        return;
    }
    if (n == 0) {
        /* documented: buf and cursor are not altered */
        snap_same(0, &m->b, s_op);
        cur_same(&before, &c->c, s_op);
        return;
    }
    if (n == room) {
        mon_flag(F_EXACT_FIT);
    }
    m_append(m, cur_bytes(c), n);
    c->off += n;
    c->len -= n;
}

static void op_buf_advance(struct mon_rng *r) {
    int i = live_buf(r, -1);
    if (i < 0) {
        op_init(r);
        return;
    }
    struct mbuf *m = &s_buf[i];
    note_buf_used(m);
    size_t room = m->cap - m->len;
    size_t n = pick_len(r, room, true);
    uint8_t *scratch = mon_fence_new(2);
    scratch[0] = 0x11;
    scratch[1] = 0x22;
    struct aws_byte_buf out = aws_byte_buf_from_array(scratch, 2); /* a valid, non-trivial output argument */
    out.len = 1;
    s_op = "buf_advance";
    mon_fp(0xE00);
    mon_fp(n);
    snap_take(0, &m->b);
    bool rv = aws_byte_buf_advance(&m->b, &out, n);
    tr(" buf_advance(#%d room%zu,%zu)=%d", i, room, n, rv);
    bool exp_ok = room >= n;
    note_fit(room, n, rv);
    if (!rv) {
        snap_same(0, &m->b, s_op);
        /* documented: all fields of *output are nulled */
        if (out.len || out.capacity || out.buffer || out.allocator) {
            viol("C01:buf-advance-output", "failed aws_byte_buf_advance left output len=%zu capacity=%zu buffer %s", out.len, out.capacity, out.buffer ? "set" : "NULL");
        }
    }
    if (scratch[0] != 0x11 || scratch[1] != 0x22 || mon_fence_check(scratch)) {
        viol("C01:buf-advance-output", "aws_byte_buf_advance wrote through the old output buffer");
    }
    mon_fence_free(scratch);
    if (!outcome(s_op, exp_ok, rv) || !exp_ok) {
        return;
    }
    uint8_t *exp_ptr = n ? m->ptr + m->len : NULL;
    if (out.len != 0 || out.capacity != n || out.allocator != NULL || out.buffer != exp_ptr) {
        viol(
            "C01:buf-advance-output",
            "aws_byte_buf_advance(%zu) output: len=%zu capacity=%zu allocator %s buffer %s",
            n,
            out.len,
            out.capacity,
            out.allocator ? "set" : "NULL",
            out.buffer == exp_ptr ? "ok" : "wrong");
        s_bail = true;
        return;
    }
    /* the claimed bytes now count as contents; their values are whatever the storage held */
    size_t old = m->len;
    sh_reserve(m, old + n);
    if (n) {
        memcpy(m->sh + old, m->b.buffer + old, n);
    }
    m->len += n;
    if (n && n <= 4096) {
        /* write through the sub-buffer: must land in [old, old+n) of the parent and nowhere else */
        uint8_t cbyte = (uint8_t)mon_below(r, 256);
        size_t k = mon_chance(r, 1, 3) ? n + 1 : (mon_chance(r, 1, 2) ? n : (size_t)mon_below(r, n + 1));
        struct aws_byte_buf ob = out;
        bool w = aws_byte_buf_write_u8_n(&out, cbyte, k);
        tr(" sub.write_u8_n(%zu/%zu)=%d", k, n, w);
        if (w != (k <= n)) {
            outcome("write_u8_n(sub-buffer)", k <= n, w);
            return;
        }
        if (w) {
            memset(m->sh + old, cbyte, k);
            mon_flag(F_SUBBUF);
            if (out.len != k || out.capacity != n || out.buffer != ob.buffer) {
                viol("C01:buf-fields", "sub-buffer after write_u8_n(%zu): len=%zu capacity=%zu", k, out.len, out.capacity);
            }
        } else if (out.len != ob.len || out.capacity != ob.capacity || out.buffer != ob.buffer) {
            viol("C01:failed-op-changed-buffer", "write_u8_n(%zu) into a sub-buffer of capacity %zu failed but changed its fields", k, n);
        }
    }
}

/* ------------------------------------------------------------------ cursor advance / read family */
static void op_cursor_advance(struct mon_rng *r) {
    int ci = pick_cur(r, SIZE_MAX, -1);
    struct mcur *c = &s_cur[ci];
    bool nospec = mon_chance(r, 1, 2);
    size_t n = pick_len(r, c->len, true);
    s_op = nospec ? "cursor_advance_nospec" : "cursor_advance";
    mon_fp(0x1000 + nospec);
    mon_fp(n);
    struct aws_byte_cursor before = c->c;
    struct aws_byte_cursor rv = nospec ? aws_byte_cursor_advance_nospec(&c->c, n) : aws_byte_cursor_advance(&c->c, n);
    tr(" %s(c%d len%zu,%zu)->%zu", s_op, ci, c->len, n, rv.len);
    bool exp_ok = n <= HALF && n <= c->len;
    if (exp_ok) {
        if (rv.ptr != before.ptr || rv.len != n) {
            char key[64];
            snprintf(key, sizeof(key), "C01:outcome:%s", s_op);
            viol(key, "%s(len %zu, %zu) returned len %zu ptr %s; expected the first %zu byte(s)", s_op, c->len, n, rv.len, rv.ptr == before.ptr ? "same" : (rv.ptr ? "other" : "NULL"), n);
            s_bail = true;
            return;
        }
        if (c->kind != C_NULL) {
            c->off += n;
        }
        c->len -= n;
        if (n && c->len == 0) {
            mon_flag(F_CURSOR_EXHAUSTED);
        }
    } else {
        if (n > HALF) {
            mon_flag(F_HUGE_ARG);
        } else if (n == c->len + 1) {
            mon_flag(F_ONE_SHORT);
        }
        if (rv.ptr != NULL || rv.len != 0) {
            char key[64];
            snprintf(key, sizeof(key), "C01:outcome:%s", s_op);
            viol(key, "%s(len %zu, %zu) must return {NULL,0}; returned len %zu ptr %s", s_op, c->len, n, rv.len, rv.ptr ? "non-NULL" : "NULL");
            s_bail = true;
        }
        cur_same(&before, &c->c, s_op);
    }
}

static uint64_t get_be(const uint8_t *p, int nbytes) {
    uint64_t v = 0;
    for (int q = 0; q < nbytes; ++q) {
        v = (v << 8) | p[q];
    }
    return v;
}

static int hexval(uint8_t c) {
    if (c >= '0' && c <= '9') {
        return c - '0';
    }
    if (c >= 'a' && c <= 'f') {
        return c - 'a' + 10;
    }
    if (c >= 'A' && c <= 'F') {
        return c - 'A' + 10;
    }
    return 99;
}

static void op_cursor_read(struct mon_rng *r) {
    unsigned v = (unsigned)mon_below(r, 12);
    static const size_t widths[] = {0, 0, 0, 1, 2, 3, 4, 8, 4, 8, 2, 0};
    size_t want = v <= 2 ? SIZE_MAX : widths[v];
    int ci = pick_cur(r, want, -1);
    struct mcur *c = &s_cur[ci];
    const uint8_t *mb = cur_bytes(c);
    struct aws_byte_cursor before = c->c;
    bool rv, exp_ok;
    size_t n;
    mon_fp(0x1100 + v);
    if (v <= 2) {
        s_op = "cursor_read";
        n = pick_len(r, c->len, true);
        if (n > 8192 && n <= c->len) {
            n = 8192;
        }
        exp_ok = n == 0 || (n <= c->len && n <= HALF);
        size_t dn = exp_ok ? n : (n < 16 ? n : 16);
        uint8_t *dest = mon_fence_new(dn);
        memset(dest, 0xEE, dn);
        rv = aws_byte_cursor_read(&c->c, dest, n);
        tr(" cursor_read(c%d len%zu,%zu)=%d", ci, c->len, n, rv);
        if (rv && exp_ok && n && memcmp(dest, mb, n)) {
            viol("C01:read-value", "cursor_read(%zu) delivered %s, the cursor holds %s", n, mon_hex(dest, n, 24), mon_hex(mb, n, 24));
        }
        if (mon_fence_check(dest)) {
            viol("C01:canary", "cursor_read(%zu) wrote outside its %zu-byte destination", n, dn);
            s_bail = true;
        }
        mon_fence_free(dest);
        if (!exp_ok) {
            mon_flag(n > HALF ? F_HUGE_ARG : (n == c->len + 1 ? F_ONE_SHORT : F_FAIL_UNCHANGED));
        }
    } else if (v == 10) {
        s_op = "cursor_read_hex_u8";
        n = 2;
        uint8_t *var = mon_fence_new(1);
        *var = 0xEE;
        exp_ok = c->len >= 2 && hexval(mb[0]) < 16 && hexval(mb[1]) < 16;
        rv = aws_byte_cursor_read_hex_u8(&c->c, var);
        tr(" read_hex_u8(c%d len%zu)=%d", ci, c->len, rv);
        if (rv && exp_ok && *var != (uint8_t)(hexval(mb[0]) * 16 + hexval(mb[1]))) {
            viol("C01:read-value", "read_hex_u8 of '%c%c' gave 0x%02x", mb[0], mb[1], *var);
        }
        if (mon_fence_check(var)) {
            viol("C01:canary", "read_hex_u8 wrote outside *var");
            s_bail = true;
        }
        mon_fence_free(var);
    } else {
        static const char *names[] = {"", "", "", "cursor_read_u8", "cursor_read_be16", "cursor_read_be24", "cursor_read_be32", "cursor_read_be64", "cursor_read_float_be32", "cursor_read_float_be64", "", "cursor_read_u8"};
        if (v == 11) {
            v = 3;
        }
        s_op = names[v];
        n = widths[v];
        size_t vs = v == 5 ? 4 : n; /* be24 is stored in a uint32_t */
        uint8_t *var = mon_fence_new(vs);
        memset(var, 0xEE, vs);
        exp_ok = c->len >= n;
        uint64_t got = 0, expv = exp_ok ? get_be(mb, (int)n) : 0;
        switch (v) {
            case 3:
                rv = aws_byte_cursor_read_u8(&c->c, var);
                got = *var;
                break;
            case 4:
                rv = aws_byte_cursor_read_be16(&c->c, (uint16_t *)(void *)var);
                got = *(uint16_t *)(void *)var;
                break;
            case 5:
                rv = aws_byte_cursor_read_be24(&c->c, (uint32_t *)(void *)var);
                got = *(uint32_t *)(void *)var;
                break;
            case 6:
                rv = aws_byte_cursor_read_be32(&c->c, (uint32_t *)(void *)var);
                got = *(uint32_t *)(void *)var;
                break;
            case 7:
                rv = aws_byte_cursor_read_be64(&c->c, (uint64_t *)(void *)var);
                got = *(uint64_t *)(void *)var;
                break;
            case 8: {
                rv = aws_byte_cursor_read_float_be32(&c->c, (float *)(void *)var);
                uint32_t bits;
                memcpy(&bits, var, 4);
                got = bits;
                /* NaN payloads may legitimately be quietened by a float move: compare those as a class */
                if (exp_ok && ((expv >> 23) & 0xFF) == 0xFF && (expv & 0x7FFFFF)) {
                    expv = got = 0;
                }
                break;
            }
            default: {
                rv = aws_byte_cursor_read_float_be64(&c->c, (double *)(void *)var);
                uint64_t bits;
                memcpy(&bits, var, 8);
                got = bits;
                if (exp_ok && ((expv >> 52) & 0x7FF) == 0x7FF && (expv & 0xFFFFFFFFFFFFFULL)) {
                    expv = got = 0;
                }
                break;
            }
        }
        tr(" %s(c%d len%zu)=%d", s_op, ci, c->len, rv);
        if (rv && exp_ok && got != expv) {
            viol("C01:read-value", "%s of bytes %s gave 0x%llx, expected 0x%llx", s_op, mon_hex(mb, n, 8), (unsigned long long)got, (unsigned long long)expv);
        }
        if (mon_fence_check(var)) {
            viol("C01:canary", "%s wrote outside *var", s_op);
            s_bail = true;
        }
        mon_fence_free(var);
        if (!exp_ok && c->len + 1 == n) {
            mon_flag(F_ONE_SHORT);
        }
    }
    if (!rv) {
        cur_same(&before, &c->c, s_op);
    }
    if (!outcome(s_op, exp_ok, rv) || !exp_ok) {
        return;
    }
    if (c->kind != C_NULL) {
        c->off += n;
    }
    c->len -= n;
    if (n && c->len == 0) {
        mon_flag(F_CURSOR_EXHAUSTED);
    }
}

static void op_read_and_fill(struct mon_rng *r) {
    int i = live_buf(r, -1);
    if (i < 0 || s_buf[i].cap > 4096) {
        op_init(r);
        return;
    }
    struct mbuf *m = &s_buf[i];
    note_buf_used(m);
    int ci = pick_cur(r, m->cap, i);
    struct mcur *c = &s_cur[ci];
    size_t n = m->cap;
    bool exp_ok = n == 0 || c->len >= n;
    s_op = "cursor_read_and_fill_buffer";
    mon_fp(0x1200);
    struct aws_byte_cursor before = c->c;
    snap_take(0, &m->b);
    bool rv = aws_byte_cursor_read_and_fill_buffer(&c->c, &m->b);
    tr(" read_and_fill_buffer(c%d len%zu,#%d cap%zu)=%d", ci, c->len, i, n, rv);
    if (!rv) {
        snap_same(0, &m->b, s_op);
        cur_same(&before, &c->c, s_op);
        if (c->len + 1 == n) {
            mon_flag(F_ONE_SHORT);
        }
    }
    if (!outcome(s_op, exp_ok, rv) || !exp_ok) {
        return;
    }
    if (n && c->len == n) {
        mon_flag(F_EXACT_FIT);
    }
    /* documented: the whole buffer is overwritten and len becomes capacity */
    sh_reserve(m, n);
    memmove(m->sh, cur_bytes(c), n);
    m->len = n;
    if (c->kind != C_NULL) {
        c->off += n;
    }
    c->len -= n;
}

/* ------------------------------------------------------------------ split */
static size_t s_seg_off[SPLIT_MAX + 2], s_seg_len[SPLIT_MAX + 2];

static size_t ref_split(const uint8_t *p, size_t n, uint8_t ch) {
    size_t k = 0, start = 0;
    for (size_t q = 0; q < n; ++q) {
        if (p[q] == ch) {
            s_seg_off[k] = start;
            s_seg_len[k] = q - start;
            ++k;
            start = q + 1;
        }
    }
    s_seg_off[k] = start;
    s_seg_len[k] = n - start;
    return k + 1;
}

static uint8_t pick_split_char(struct mon_rng *r, const struct mcur *c) {
    const uint8_t *mb = cur_bytes(c);
    if (c->len && mon_chance(r, 3, 4)) {
        switch (mon_below(r, 3)) {
            case 0:
                return mb[c->len - 1];
            case 1:
                return mb[0];
            default:
                return mb[mon_below(r, c->len)];
        }
    }
    static const uint8_t common[] = {';', ',', ' ', '=', 0, 0xFF, '\n'};
    return common[mon_below(r, sizeof(common))];
}

static int pick_cur_short(struct mon_rng *r) {
    int ci = pick_cur(r, SIZE_MAX, -1);
    if (s_cur[ci].len > SPLIT_MAX) {
        reseat_cur(r, ci, 40, -1);
        if (s_cur[ci].len > SPLIT_MAX) {
            cur_set(ci, C_SRC, 1, 0, s_src[1].n);
        }
    }
    return ci;
}

static void op_next_split(struct mon_rng *r) {
    int ci = pick_cur_short(r);
    struct mcur *c = &s_cur[ci];
    uint8_t ch = pick_split_char(r, c);
    size_t nseg = ref_split(cur_bytes(c), c->len, ch);
    s_op = "next_split";
    mon_fp(0x1300 + ch);
    tr(" next_split(c%d len%zu,0x%02x:%zu)", ci, c->len, ch, nseg);
    if (c->len && cur_bytes(c)[c->len - 1] == ch) {
        mon_flag(F_SPLIT_TRAILING);
    }
    struct aws_byte_cursor sub = {0, NULL};
    struct aws_byte_cursor before = c->c;
    size_t k = 0;
    for (;; ++k) {
        bool more = aws_byte_cursor_next_split(&c->c, (char)ch, &sub);
        if (c->c.ptr != before.ptr || c->c.len != before.len) {
            viol("C01:cursor-fields", "next_split modified its const input cursor");
            s_bail = true;
            return;
        }
        if (!more) {
            break;
        }
        if (k >= nseg) {
            viol("C01:split-iterator", "next_split over %zu bytes with separator 0x%02x produced more than the %zu expected substrings (extra one has len %zu)", c->len, ch, nseg, sub.len);
            s_bail = true;
            return;
        }
        bool ok;
        if (c->kind == C_NULL) {
            ok = sub.len == 0 && sub.ptr != NULL; /* single empty split; must not look like "first run" again */
        } else {
            ok = sub.len == s_seg_len[k] && sub.ptr == c->c.ptr + s_seg_off[k];
        }
        if (!ok) {
            viol(
                "C01:split-iterator",
                "next_split #%zu over %zu bytes (separator 0x%02x): got offset %lld len %zu, expected offset %zu len %zu; input=%s",
                k,
                c->len,
                ch,
                (sub.ptr && c->c.ptr) ? (long long)(sub.ptr - c->c.ptr) : -1LL,
                sub.len,
                s_seg_off[k],
                s_seg_len[k],
                mon_hex(cur_bytes(c), c->len, 40));
            s_bail = true;
            return;
        }
    }
    if (k != nseg) {
        viol("C01:split-iterator", "next_split over %zu bytes with separator 0x%02x stopped after %zu of %zu substrings", c->len, ch, k, nseg);
        s_bail = true;
    }
    if (sub.ptr != NULL || sub.len != 0) {
        viol("C01:split-iterator", "next_split returned false but substr is not empty (len %zu)", sub.len);
    }
}

static void op_split_list(struct mon_rng *r) {
    int ci = pick_cur_short(r);
    struct mcur *c = &s_cur[ci];
    uint8_t ch = pick_split_char(r, c);
    size_t nseg = ref_split(cur_bytes(c), c->len, ch);
    bool use_n = mon_chance(r, 1, 2);
    size_t n = 0;
    if (use_n) {
        switch (mon_below(r, 6)) {
            case 0:
                n = 0;
                break;
            case 1:
                n = 1;
                break;
            case 2:
                n = nseg - 1;
                break;
            case 3:
                n = nseg;
                break;
            case 4:
                n = nseg > 1 ? nseg - 2 : 1;
                break;
            default:
                n = mon_chance(r, 1, 2) ? SIZE_MAX : (size_t)mon_below(r, nseg + 2);
                break;
        }
    }
    /* expected list: with n>0 at most n+1 entries, entry n takes the rest of the input */
    size_t nexp = nseg;
    if (n > 0 && n < SIZE_MAX && nseg > n + 1) {
        nexp = n + 1;
    }
    bool is_static = mon_chance(r, 1, 3);
    size_t scap = 1 + (size_t)mon_below(r, 4);
    struct aws_array_list list;
    void *store = NULL;
    if (is_static) {
        store = mon_fence_new(scap * sizeof(struct aws_byte_cursor));
        aws_array_list_init_static(&list, store, scap, sizeof(struct aws_byte_cursor));
    } else {
        aws_array_list_init_dynamic(&list, mon_guard_allocator(), (size_t)mon_below(r, 4), sizeof(struct aws_byte_cursor));
    }
    s_op = use_n ? "split_on_char_n" : "split_on_char";
    mon_fp(0x1400 + ch + (use_n ? 0x100 : 0));
    mon_fp(n);
    struct aws_byte_cursor before = c->c;
    mon_poison_last_error(&mon_case_rng);
    int rc = use_n ? aws_byte_cursor_split_on_char_n(&c->c, (char)ch, n, &list) : aws_byte_cursor_split_on_char(&c->c, (char)ch, &list);
    tr(" %s(c%d len%zu,0x%02x,n=%zu,%s%zu)=%d", s_op, ci, c->len, ch, n, is_static ? "static" : "dyn", is_static ? scap : 0, rc);
    bool exp_ok = !(is_static && nexp > scap);
    size_t nlist = exp_ok ? nexp : scap; /* documented partial effect: the list holds what fitted */
    if (!exp_ok) {
        mon_flag(F_SPLIT_FULL);
    }
    if (c->c.ptr != before.ptr || c->c.len != before.len) {
        viol("C01:cursor-fields", "%s modified its const input cursor", s_op);
        s_bail = true;
    }
    if (outcome(s_op, exp_ok, rc == AWS_OP_SUCCESS)) {
        size_t got = aws_array_list_length(&list);
        if (got != nlist) {
            viol("C01:split-list", "%s over %zu bytes (separator 0x%02x, n=%zu): list has %zu entries, expected %zu", s_op, c->len, ch, n, got, nlist);
            s_bail = true;
        } else {
            for (size_t k = 0; k < nlist; ++k) {
                struct aws_byte_cursor e;
                aws_array_list_get_at(&list, &e, k);
                size_t el = s_seg_len[k];
                if (n > 0 && k == n) {
                    el = c->len - s_seg_off[k];
                }
                bool ok = c->kind == C_NULL ? (e.len == 0) : (e.len == el && e.ptr == c->c.ptr + s_seg_off[k]);
                if (!ok) {
                    viol(
                        "C01:split-list",
                        "%s entry %zu: offset %lld len %zu, expected offset %zu len %zu (input %zu bytes, separator 0x%02x, n=%zu)",
                        s_op,
                        k,
                        (e.ptr && c->c.ptr) ? (long long)(e.ptr - c->c.ptr) : -1LL,
                        e.len,
                        s_seg_off[k],
                        el,
                        c->len,
                        ch,
                        n);
                    s_bail = true;
                    break;
                }
            }
        }
    }
    if (store && mon_fence_check(store)) {
        viol("C01:canary", "%s wrote outside the %zu-entry static list", s_op, scap);
        s_bail = true;
    }
    aws_array_list_clean_up(&list);
    if (store) {
        mon_fence_free(store);
    }
}

/* ------------------------------------------------------------------ find / trim / compare / hash / parse */
static void op_find_exact(struct mon_rng *r) {
    int ci = pick_cur(r, SIZE_MAX, -1);
    if (s_cur[ci].len > 4096) {
        reseat_cur(r, ci, 64, -1);
    }
    int cj = pick_cur_related(r, ci, mon_chance(r, 2, 3));
    struct mcur *h = &s_cur[ci], *nd = &s_cur[cj];
    if (nd->len > 4096) {
        cur_set(cj, C_NULL, 0, 0, 0);
    }
    const uint8_t *hb = cur_bytes(h), *nb = cur_bytes(nd);
    /* reference: first occurrence by brute force */
    bool found = false;
    size_t pos = 0;
    if (nd->len >= 1 && nd->len <= h->len) {
        for (size_t q = 0; q + nd->len <= h->len; ++q) {
            if (!memcmp(hb + q, nb, nd->len)) {
                found = true;
                pos = q;
                break;
            }
        }
    }
    s_op = "find_exact";
    mon_fp(0x1500);
    struct aws_byte_cursor out = {.len = 0xEEEE, .ptr = (uint8_t *)&out};
    mon_poison_last_error(&mon_case_rng);
    int rc = aws_byte_cursor_find_exact(&h->c, &nd->c, &out);
    tr(" find_exact(c%d len%zu,c%d len%zu)=%d", ci, h->len, cj, nd->len, rc);
    if (!outcome(s_op, found, rc == AWS_OP_SUCCESS)) {
        return;
    }
    if (found) {
        mon_flag(F_FIND_HIT);
        if (out.ptr != h->c.ptr + pos || out.len != h->len - pos) {
            viol(
                "C01:find-exact",
                "find_exact in %zu bytes for %s: reported offset %lld len %zu, first match is at %zu (remaining %zu)",
                h->len,
                mon_hex(nb, nd->len, 16),
                out.ptr ? (long long)(out.ptr - h->c.ptr) : -1LL,
                out.len,
                pos,
                h->len - pos);
        }
    } else if (nd->len >= 1) {
        expect_error(s_op, AWS_ERROR_STRING_MATCH_NOT_FOUND);
    }
}

static bool p_odd(uint8_t c) {
    return c & 1;
}
static bool p_all(uint8_t c) {
    (void)c;
    return true;
}
static bool p_none(uint8_t c) {
    (void)c;
    return false;
}
static bool p_high(uint8_t c) {
    return c >= 0x80;
}
static bool r_alnum(uint8_t c) {
    return (c >= 'a' && c <= 'z') || (c >= 'A' && c <= 'Z') || (c >= '0' && c <= '9');
}
static bool r_alpha(uint8_t c) {
    return (c >= 'a' && c <= 'z') || (c >= 'A' && c <= 'Z');
}
static bool r_digit(uint8_t c) {
    return c >= '0' && c <= '9';
}
static bool r_xdigit(uint8_t c) {
    return hexval(c) < 16;
}
static bool r_space(uint8_t c) {
    return c == 0x20 || (c >= 0x09 && c <= 0x0D);
}

static void op_trim(struct mon_rng *r) {
    static aws_byte_predicate_fn *const lib[] = {aws_isalnum, aws_isalpha, aws_isdigit, aws_isxdigit, aws_isspace, p_odd, p_all, p_none, p_high};
    static aws_byte_predicate_fn *const ref[] = {r_alnum, r_alpha, r_digit, r_xdigit, r_space, p_odd, p_all, p_none, p_high};
    static const char *pn[] = {"isalnum", "isalpha", "isdigit", "isxdigit", "isspace", "odd", "always", "never", "high"};
    int ci = pick_cur(r, SIZE_MAX, -1);
    struct mcur *c = &s_cur[ci];
    const uint8_t *mb = cur_bytes(c);
    unsigned pi = (unsigned)mon_below(r, 9), which = (unsigned)mon_below(r, 4);
    size_t lo = 0, hi = c->len;
    if (which == 1 || which == 2 || which == 3) {
        while (lo < hi && ref[pi](mb[lo])) {
            ++lo;
        }
    }
    if (which == 0 || which == 2) {
        while (hi > lo && ref[pi](mb[hi - 1])) {
            --hi;
        }
    }
    mon_fp(0x1600 + pi * 4 + which);
    struct aws_byte_cursor before = c->c, t = {0, NULL};
    bool sat = false;
    switch (which) {
        case 0:
            s_op = "right_trim_pred";
            t = aws_byte_cursor_right_trim_pred(&c->c, lib[pi]);
            break;
        case 1:
            s_op = "left_trim_pred";
            t = aws_byte_cursor_left_trim_pred(&c->c, lib[pi]);
            break;
        case 2:
            s_op = "trim_pred";
            t = aws_byte_cursor_trim_pred(&c->c, lib[pi]);
            break;
        default:
            s_op = "satisfies_pred";
            sat = aws_byte_cursor_satisfies_pred(&c->c, lib[pi]);
            break;
    }
    tr(" %s(c%d len%zu,%s)", s_op, ci, c->len, pn[pi]);
    if (c->c.ptr != before.ptr || c->c.len != before.len) {
        viol("C01:cursor-fields", "%s modified its const source cursor", s_op);
        s_bail = true;
    }
    if (which == 3) {
        if (sat != (lo == c->len)) {
            viol("C01:trim", "satisfies_pred(%s) over %s returned %d", pn[pi], mon_hex(mb, c->len, 32), sat);
        }
        return;
    }
    bool ok = t.len == hi - lo && (c->kind == C_NULL ? t.ptr == NULL : t.ptr == c->c.ptr + lo);
    if (!ok) {
        viol(
            "C01:trim",
            "%s(%s) over %zu bytes %s: result offset %lld len %zu, expected offset %zu len %zu",
            s_op,
            pn[pi],
            c->len,
            mon_hex(mb, c->len, 32),
            (t.ptr && c->c.ptr) ? (long long)(t.ptr - c->c.ptr) : -1LL,
            t.len,
            lo,
            hi - lo);
    }
}

static int sign(int v) {
    return (v > 0) - (v < 0);
}

static uint64_t ref_hash_ic(const uint8_t *p, size_t n) {
    uint64_t h = 0xcbf29ce484222325ULL;
    for (size_t q = 0; q < n; ++q) {
        h ^= lc(p[q]);
        h *= 0x100000001b3ULL;
    }
    return h;
}

static char *mk_cstr(const uint8_t *bytes, size_t n) {
    char *s = mon_fence_new(n + 1);
    if (n) {
        memcpy(s, bytes, n);
    }
    s[n] = 0;
    return s;
}

static void op_compare(struct mon_rng *r) {
    int ci = pick_cur(r, SIZE_MAX, -1);
    if (s_cur[ci].len > 4096) {
        reseat_cur(r, ci, 64, -1);
    }
    int cj = pick_cur_related(r, ci, false);
    if (s_cur[cj].len > 4096) {
        cur_set(cj, C_NULL, 0, 0, 0);
    }
    struct mcur *a = &s_cur[ci], *b = &s_cur[cj];
    const uint8_t *ab = cur_bytes(a), *bb = cur_bytes(b);
    size_t al = a->len, bl = b->len, ml = al < bl ? al : bl;
    bool eq = al == bl && !memcmp(ab, bb, al);
    bool eq_ic = al == bl;
    for (size_t q = 0; eq_ic && q < al; ++q) {
        eq_ic = lc(ab[q]) == lc(bb[q]);
    }
    unsigned v = (unsigned)mon_below(r, 16);
    mon_fp(0x1700 + v);
    bool got = false, exp = false;
    int gi = 0, ei = 0;
    bool is_int = false;
    switch (v) {
        case 0:
            s_op = "cursor_eq";
            exp = eq;
            got = aws_byte_cursor_eq(&a->c, &b->c);
            break;
        case 1:
            s_op = "cursor_eq_ignore_case";
            exp = eq_ic;
            got = aws_byte_cursor_eq_ignore_case(&a->c, &b->c);
            break;
        case 2:
            s_op = "array_eq";
            exp = eq;
            got = aws_array_eq(a->c.ptr, al, b->c.ptr, bl);
            break;
        case 3:
            s_op = "array_eq_ignore_case";
            exp = eq_ic;
            got = aws_array_eq_ignore_case(a->c.ptr, al, b->c.ptr, bl);
            break;
        case 4:
        case 5:
        case 6:
        case 7: {
            /* NUL-terminated right-hand side, fenced so that reading past the terminator is seen */
            char *s = mk_cstr(bb, bl);
            size_t sl = strlen(s);
            bool e = al == sl && !memcmp(ab, s, al), eic = al == sl;
            for (size_t q = 0; eic && q < al; ++q) {
                eic = lc(ab[q]) == lc((uint8_t)s[q]);
            }
            if (v == 4) {
                s_op = "cursor_eq_c_str";
                exp = e;
                got = aws_byte_cursor_eq_c_str(&a->c, s);
            } else if (v == 5) {
                s_op = "cursor_eq_c_str_ignore_case";
                exp = eic;
                got = aws_byte_cursor_eq_c_str_ignore_case(&a->c, s);
            } else if (v == 6) {
                s_op = "array_eq_c_str";
                exp = e;
                got = aws_array_eq_c_str(a->c.ptr, al, s);
            } else {
                s_op = "array_eq_c_str_ignore_case";
                exp = eic;
                got = aws_array_eq_c_str_ignore_case(a->c.ptr, al, s);
            }
            mon_fence_free(s);
            break;
        }
        case 8:
            s_op = "starts_with";
            exp = bl <= al && !memcmp(ab, bb, bl);
            got = aws_byte_cursor_starts_with(&a->c, &b->c);
            break;
        case 9: {
            s_op = "starts_with_ignore_case";
            exp = bl <= al;
            for (size_t q = 0; exp && q < bl; ++q) {
                exp = lc(ab[q]) == lc(bb[q]);
            }
            got = aws_byte_cursor_starts_with_ignore_case(&a->c, &b->c);
            break;
        }
        case 10:
        case 11:
            if (a->c.ptr && b->c.ptr) { /* precondition: non-NULL pointers */
                s_op = "compare_lexical";
                is_int = true;
                ei = ml ? sign(memcmp(ab, bb, ml)) : 0;
                if (!ei) {
                    ei = (al > bl) - (al < bl);
                }
                gi = sign(aws_byte_cursor_compare_lexical(&a->c, &b->c));
                break;
            }
            /* fall through */
        case 12:
        case 13: {
            s_op = "compare_lookup";
            is_int = true;
            const uint8_t *tb = mon_chance(r, 1, 2) ? aws_lookup_table_to_lower_get() : s_table;
            for (size_t q = 0; q < ml && !ei; ++q) {
                ei = (tb[ab[q]] > tb[bb[q]]) - (tb[ab[q]] < tb[bb[q]]);
            }
            if (!ei) {
                ei = (al > bl) - (al < bl);
            }
            gi = sign(aws_byte_cursor_compare_lookup(&a->c, &b->c, tb));
            break;
        }
        case 14: {
            s_op = "hash_array_ignore_case";
            uint64_t h1 = aws_hash_array_ignore_case(a->c.ptr, al), h2 = aws_hash_byte_cursor_ptr_ignore_case(&a->c);
            uint64_t e = ref_hash_ic(ab, al);
            if (h1 != e || h2 != e) {
                viol("C01:hash", "case-insensitive hash of %s: %llx / %llx, FNV-1a reference %llx", mon_hex(ab, al, 32), (unsigned long long)h1, (unsigned long long)h2, (unsigned long long)e);
            }
            tr(" hash_ic(c%d len%zu)", ci, al);
            return;
        }
        default: {
            /* buffer flavours on live buffers */
            int i = live_buf(r, -1);
            if (i < 0) {
                return;
            }
            struct mbuf *m = &s_buf[i];
            if (m->len > 4096) {
                return;
            }
            unsigned w = (unsigned)mon_below(r, 6);
            bool e = m->len == al && !memcmp(m->sh, ab, al), eic = m->len == al;
            for (size_t q = 0; eic && q < al; ++q) {
                eic = lc(m->sh[q]) == lc(ab[q]);
            }
            if (w == 0) {
                s_op = "cursor_eq_byte_buf";
                exp = e;
                got = aws_byte_cursor_eq_byte_buf(&a->c, &m->b);
            } else if (w == 1) {
                s_op = "cursor_eq_byte_buf_ignore_case";
                exp = eic;
                got = aws_byte_cursor_eq_byte_buf_ignore_case(&a->c, &m->b);
            } else if (w <= 3) {
                int j = live_buf(r, -1);
                struct mbuf *o = &s_buf[j];
                if (o->len > 4096) {
                    return;
                }
                e = m->len == o->len && !memcmp(m->sh, o->sh, m->len);
                eic = m->len == o->len;
                for (size_t q = 0; eic && q < m->len; ++q) {
                    eic = lc(m->sh[q]) == lc(o->sh[q]);
                }
                if (w == 2) {
                    s_op = "buf_eq";
                    exp = e;
                    got = aws_byte_buf_eq(&m->b, &o->b);
                } else {
                    s_op = "buf_eq_ignore_case";
                    exp = eic;
                    got = aws_byte_buf_eq_ignore_case(&m->b, &o->b);
                }
            } else {
                char *s = mon_chance(r, 1, 2) ? mk_cstr(m->sh, m->len) : mk_cstr(ab, al);
                size_t sl = strlen(s);
                e = m->len == sl && !memcmp(m->sh, s, sl);
                eic = m->len == sl;
                for (size_t q = 0; eic && q < sl; ++q) {
                    eic = lc(m->sh[q]) == lc((uint8_t)s[q]);
                }
                if (w == 4) {
                    s_op = "buf_eq_c_str";
                    exp = e;
                    got = aws_byte_buf_eq_c_str(&m->b, s);
                } else {
                    s_op = "buf_eq_c_str_ignore_case";
                    exp = eic;
                    got = aws_byte_buf_eq_c_str_ignore_case(&m->b, s);
                }
                mon_fence_free(s);
            }
            break;
        }
    }
    tr(" %s(c%d len%zu,c%d len%zu)", s_op, ci, al, cj, bl);
    if (is_int) {
        if (gi != ei) {
            viol("C01:compare", "%s(%s, %s) has sign %d, expected %d", s_op, mon_hex(ab, al, 24), mon_hex(bb, bl, 24), gi, ei);
        }
        if (!ei && al) {
            mon_flag(F_EQ_TRUE);
        }
    } else {
        if (got != exp) {
            viol("C01:compare", "%s returned %d, expected %d; lhs=%s rhs=%s", s_op, got, exp, mon_hex(ab, al, 24), mon_hex(bb, bl, 24));
        }
        if (exp && al) {
            mon_flag(F_EQ_TRUE);
        }
    }
}

static void op_parse(struct mon_rng *r) {
    bool hex = mon_chance(r, 1, 2);
    unsigned base = hex ? 16 : 10;
    uint8_t text[48];
    size_t n = 0;
    static const char *dec_edges[] = {"18446744073709551615", "18446744073709551616", "18446744073709551614", "28446744073709551615", "184467440737095516150", "00000000000000000000018446744073709551615", "0", "9999999999999999999"};
    static const char *hex_edges[] = {"FFFFFFFFFFFFFFFF", "10000000000000000", "ffffffffffffffff", "0FFFFFFFFFFFFFFFF", "FFFFFFFFFFFFFFFF0", "7fffffffffffffff", "0", "00000000000000000000000ff"};
    unsigned w = (unsigned)mon_below(r, 10);
    if (w < 3) {
        const char *e = hex ? hex_edges[mon_below(r, 8)] : dec_edges[mon_below(r, 8)];
        n = strlen(e);
        memcpy(text, e, n);
    } else if (w < 9) {
        n = 1 + (size_t)mon_below(r, hex ? 18 : 22);
        for (size_t q = 0; q < n; ++q) {
            text[q] = (uint8_t)(hex ? "0123456789abcdefABCDEF"[mon_below(r, 22)] : '0' + mon_below(r, 10));
        }
    } else {
        n = 0;
    }
    if (n && mon_chance(r, 1, 4)) {
        static const uint8_t bad[] = {' ', '-', '+', 'x', 'g', 'G', '/', ':', '@', '`', 0, 0xFF, 'a', 'F', '.', ','};
        text[mon_below(r, n)] = bad[mon_below(r, sizeof(bad))];
    }
    uint8_t *in = mon_fence_new(n);
    memcpy(in, text, n);
    struct aws_byte_cursor cur = aws_byte_cursor_from_array(in, n);
    if (n == 0 && mon_chance(r, 1, 2)) {
        cur.ptr = NULL;
        mon_flag(F_NULL_CURSOR);
    }
    /* reference with 128-bit accumulation */
    bool exp_ok = n > 0, ovf = false;
    unsigned __int128 acc = 0;
    for (size_t q = 0; q < n && exp_ok; ++q) {
        int d = hexval(text[q]);
        if (d >= (int)base) {
            exp_ok = false;
            break;
        }
        acc = acc * base + (unsigned)d;
        if (acc > UINT64_MAX) {
            exp_ok = false;
            ovf = true;
        }
    }
    s_op = hex ? "utf8_parse_u64_hex" : "utf8_parse_u64";
    mon_fp(0x1800 + hex);
    mon_fp(n);
    uint64_t *dst = mon_fence_new(sizeof(uint64_t));
    *dst = 0xEEEEEEEEEEEEEEEEULL;
    int rc = hex ? aws_byte_cursor_utf8_parse_u64_hex(cur, dst) : aws_byte_cursor_utf8_parse_u64(cur, dst);
    tr(" %s(hex:%s)=%d", s_op, mon_hex(text, n, 48), rc);
    if (ovf) {
        mon_flag(F_PARSE_OVERFLOW);
    }
    if (outcome(s_op, exp_ok, rc == AWS_OP_SUCCESS) && exp_ok && *dst != (uint64_t)acc) {
        viol("C01:parse-value", "%s(text hex %s) = %llu, expected %llu", s_op, mon_hex(text, n, 48), (unsigned long long)*dst, (unsigned long long)(uint64_t)acc);
    }
    if (mon_fence_check(dst) || mon_fence_check(in)) {
        viol("C01:canary", "%s wrote outside *dst or its input", s_op);
    }
    mon_fence_free(dst);
    mon_fence_free(in);
}

/* ------------------------------------------------------------------ files */
#define NFILES 13
static const size_t s_file_sizes[NFILES] = {0, 1, 31, 32, 33, 63, 64, 65, 4095, 4096, 4097, 5000, 9000};
static char s_file_path[NFILES][512];
static char s_missing_path[512];

static uint8_t file_byte(size_t size, size_t i) {
    return (uint8_t)(i * 31 + size * 7 + 1 + (i >> 8));
}

static void files_create(void) {
    const char *dir = mon_run.outdir ? mon_run.outdir : ".";
    for (int k = 0; k < NFILES; ++k) {
        snprintf(s_file_path[k], sizeof(s_file_path[k]), "%s/c01_s%d_f%d.bin", dir, mon_run.slice, k);
        FILE *f = fopen(s_file_path[k], "wb");
        if (!f) {
            fprintf(stderr, "mon: cannot create %s\n", s_file_path[k]);
            _exit(2);
        }
        for (size_t i = 0; i < s_file_sizes[k]; ++i) {
            fputc(file_byte(s_file_sizes[k], i), f);
        }
        fclose(f);
    }
    snprintf(s_missing_path, sizeof(s_missing_path), "%s/c01_s%d_does_not_exist.bin", dir, mon_run.slice);
}

static void files_remove(void) {
    for (int k = 0; k < NFILES; ++k) {
        unlink(s_file_path[k]);
    }
}

static uint64_t s_n_proc_unavailable;

static void op_file(struct mon_rng *r) {
    int i = free_buf();
    if (i < 0) {
        op_cleanup(r);
        return;
    }
    struct mbuf *m = &s_buf[i];
    struct aws_allocator *a = rand_alloc(r);
    unsigned v = (unsigned)mon_below(r, 10);
    int k = (int)mon_below(r, NFILES);
    size_t size = s_file_sizes[k], hint = 0;
    bool with_hint = v >= 4 && v <= 7, missing = v == 8, proc = v == 9;
    const char *path = missing ? s_missing_path : (proc ? "/proc/self/status" : s_file_path[k]);
    if (with_hint || (proc && mon_chance(r, 1, 2))) {
        with_hint = true;
        static const size_t hs[] = {0, 1, 31, 32, 33, 4096};
        switch (mon_below(r, 6)) {
            case 0:
                hint = size;
                break;
            case 1:
                hint = size + 1;
                break;
            case 2:
                hint = size ? size - 1 : 0;
                break;
            case 3:
                hint = size + 2;
                break;
            default:
                hint = hs[mon_below(r, 6)];
                break;
        }
    }
    s_op = with_hint ? "init_from_file_with_size_hint" : "init_from_file";
    mon_fp(0x1900 + v * 16 + (unsigned)k);
    mon_fp(hint);
    struct mon_alloc_stats s0, s1;
    mon_guard_stats(&s0);
    memset(&m->b, 0x5A, sizeof(m->b));
    mon_poison_last_error(&mon_case_rng);
    int rc = with_hint ? aws_byte_buf_init_from_file_with_size_hint(&m->b, a, path, hint) : aws_byte_buf_init_from_file(&m->b, a, path);
    tr(" %s(#%d,%s,size %zu,hint %zu)=%d", s_op, i, missing ? "missing" : (proc ? "/proc" : "file"), size, hint, rc);
    if (proc && rc != AWS_OP_SUCCESS) {
        ++s_n_proc_unavailable; /* no procfs in this sandbox: not an observation about the library */
        missing = true;
    } else if (!outcome(s_op, !missing, rc == AWS_OP_SUCCESS)) {
        return;
    }
    if (missing) {
        /* documented: out_buf remains unused */
        if (m->b.buffer || m->b.len || m->b.capacity) {
            viol("C01:file-read", "failed %s left out_buf with capacity %zu len %zu", s_op, m->b.capacity, m->b.len);
        }
        mon_guard_stats(&s1);
        if (s1.live_blocks != s0.live_blocks) {
            viol("C01:leak", "failed %s left %lld block(s) allocated", s_op, (long long)(s1.live_blocks - s0.live_blocks));
        }
        return;
    }
    mon_flag(F_FILE);
    if (!m->b.buffer || m->b.capacity <= m->b.len || m->b.allocator != a) {
        viol("C01:file-read", "%s: len %zu capacity %zu buffer %s: no room for the documented terminator", s_op, m->b.len, m->b.capacity, m->b.buffer ? "set" : "NULL");
        s_bail = true;
        if (m->b.buffer) {
            aws_byte_buf_clean_up(&m->b);
        }
        return;
    }
    if (m->b.buffer[m->b.len] != 0) {
        viol("C01:file-read", "%s: byte after the contents is 0x%02x, not the documented NUL", s_op, m->b.buffer[m->b.len]);
    }
    if (with_hint && m->b.capacity != hint) {
        mon_flag(F_FILE_GROW);
    }
    if (proc) {
        if (m->b.len < 5 || memcmp(m->b.buffer, "Name:", 5)) {
            viol("C01:file-read", "%s of /proc/self/status: %zu bytes starting %s", s_op, m->b.len, mon_hex(m->b.buffer, m->b.len, 8));
        }
        sh_reserve(m, m->b.len);
        memcpy(m->sh, m->b.buffer, m->b.len); /* contents are the kernel's; adopt them */
        adopt(i, B_DYN, a, m->b.len, m->b.capacity, NULL);
        return;
    }
    if (m->b.len != size) {
        viol("C01:file-read", "%s: read %zu bytes of a %zu-byte file (hint %zu)", s_op, m->b.len, size, hint);
        s_bail = true;
        aws_byte_buf_clean_up(&m->b);
        return;
    }
    sh_reserve(m, size);
    for (size_t q = 0; q < size; ++q) {
        m->sh[q] = file_byte(size, q);
    }
    adopt(i, B_DYN, a, size, m->b.capacity, NULL);
}

/* ------------------------------------------------------------------ nospec mask, forged fields, other secure releases */
static size_t edge_index(struct mon_rng *r) {
    static const size_t e[] = {0, 1, 2, HALF - 1, HALF, HALF + 1, SIZE_MAX - 1, SIZE_MAX};
    switch (mon_below(r, 4)) {
        case 0:
        case 1:
            return e[mon_below(r, 8)];
        case 2:
            return (size_t)mon_below(r, 300);
        default:
            return (size_t)mon_rand(r) >> mon_below(r, 64);
    }
}

static void op_nospec_mask(struct mon_rng *r) {
    size_t index = edge_index(r), bound = edge_index(r);
    if (mon_chance(r, 1, 4)) {
        bound = index + (size_t)mon_below(r, 3) - 1;
    }
    /* private/byte_buf.h: 0 if index >= bound, bound > SIZE_MAX/2 or index > SIZE_MAX/2; all ones otherwise */
    size_t exp = (index < bound && bound <= HALF && index <= HALF) ? UINTPTR_MAX : 0;
    size_t got = aws_nospec_mask(index, bound);
    s_op = "nospec_mask";
    mon_fp(0x1A00);
    mon_fp(index);
    mon_fp(bound);
    mon_flag(F_NOSPEC);
    tr(" nospec_mask(%zx,%zx)", index, bound);
    if (got != exp) {
        viol("C01:nospec-mask", "aws_nospec_mask(index=0x%zx, bound=0x%zx) = 0x%zx, definition gives 0x%zx", index, bound, got, exp);
    }
}

static uint64_t s_n_half_clobber;

static void op_forged(struct mon_rng *r) {
    unsigned v = (unsigned)mon_below(r, 4);
    mon_fp(0x1B00 + v);
    mon_flag(F_FORGED);
    if (v <= 1) {
        /* cursor whose length field claims half the address space or more (nothing is dereferenced by advance) */
        static const size_t lens[] = {HALF - 1, HALF, HALF + 1, SIZE_MAX - 1, SIZE_MAX};
        size_t len = lens[mon_below(r, 5)];
        static const size_t ns[] = {1, 2, 7, 64, HALF + 1, SIZE_MAX, SIZE_MAX - 1, HALF + 2};
        size_t n = ns[mon_below(r, 8)];
        bool nospec = v == 1;
        struct aws_byte_cursor c = {.ptr = s_src[0].p, .len = len}, before = c;
        s_op = nospec ? "cursor_advance_nospec(forged len)" : "cursor_advance(forged len)";
        mon_fp(len);
        mon_fp(n);
        struct aws_byte_cursor rv = nospec ? aws_byte_cursor_advance_nospec(&c, n) : aws_byte_cursor_advance(&c, n);
        tr(" %s(len=%zx,%zx)->%zx", s_op, len, n, rv.len);
        bool failed = rv.ptr == NULL && rv.len == 0;
        bool consistent = n <= 64 && rv.ptr == before.ptr && rv.len == n && c.ptr == before.ptr + (n <= 64 ? n : 0) && c.len == before.len - n;
        bool unchanged = c.ptr == before.ptr && c.len == before.len;
        if (n > HALF || n > len) {
            /* header: a length above SIZE_MAX/2 is treated as overflow: {NULL,0}, cursor unchanged */
            if (!failed) {
                viol("C01:outcome:cursor_advance(huge)", "%s with len argument 0x%zx on a cursor of 0x%zx did not fail", s_op, n, len);
            } else if (!unchanged) {
                viol("C01:failed-op-changed-cursor", "%s(0x%zx) on a cursor of 0x%zx bytes failed but changed the cursor (len now 0x%zx)", s_op, n, len, c.len);
            }
            mon_flag(F_HUGE_ARG);
        } else if (len <= HALF) {
            /* the cursor has n bytes and neither value is above SIZE_MAX/2: documented to advance */
            if (failed && !unchanged) {
                /* one report per process for this input class (the driver stops a process after 20 violations) */
                static bool reported[2][2];
                ++s_n_half_clobber;
                if (!reported[nospec][len == HALF]) {
                    reported[nospec][len == HALF] = true;
                    char key[96];
                    snprintf(key, sizeof(key), "C01:%s:cursor-len-%s:failure-clobbers-cursor", nospec ? "nospec" : "advance", len == HALF ? "SIZE_MAX/2" : "below-SIZE_MAX/2");
                    viol(key, "%s(%zu) on a cursor of 0x%zx bytes returned {NULL,0} and changed the cursor to ptr %s len 0x%zx", s_op, n, len, c.ptr ? "set" : "NULL", c.len);
                }
            } else if (failed && unchanged && nospec && len == HALF) {
                /* advance_nospec cannot build its speculation mask for a bound of SIZE_MAX/2 + 1 and refuses
                 * cleanly (repo commit 9c9036b). C01's clause is "a failing call changes nothing"; equality with
                 * aws_byte_cursor_advance at this single forged length is header wording beyond C01: counted. */
                mon_count("nospec_refused_cleanly_at_len_SIZE_MAX/2", 1);
            } else if (!consistent) {
                char key[96];
                snprintf(key, sizeof(key), "C01:outcome:%s:cursor-len-%s", nospec ? "nospec" : "advance", len == HALF ? "SIZE_MAX/2" : "below-SIZE_MAX/2");
                viol(key, "%s(%zu) on a cursor of 0x%zx bytes: returned len 0x%zx, cursor len 0x%zx", s_op, n, len, rv.len, c.len);
            }
        } else {
            /* cursor->len above SIZE_MAX/2: the code refuses, the header is silent: either consistent outcome */
            if (!(failed && unchanged) && !consistent) {
                viol("C01:failed-op-changed-cursor", "%s(%zu) on a cursor claiming 0x%zx bytes: returned len 0x%zx ptr %s, cursor len 0x%zx", s_op, n, len, rv.len, rv.ptr ? "set" : "NULL", c.len);
            }
        }
    } else {
        /* buffer whose len field is above SIZE_MAX/2: write guards must refuse before touching memory */
        uint8_t *st = mon_fence_new(8);
        memset(st, 0x77, 8);
        struct aws_byte_buf b = {.len = HALF + 1 + (size_t)mon_below(r, 5), .buffer = st, .capacity = 0, .allocator = NULL};
        b.capacity = mon_chance(r, 1, 2) ? SIZE_MAX : b.len + (size_t)mon_below(r, 16);
        struct aws_byte_buf before = b;
        static const size_t ns[] = {1, 8, HALF, SIZE_MAX, HALF + 1, 3};
        size_t n = ns[mon_below(r, 6)];
        bool rv;
        if (v == 2) {
            s_op = "write(forged len)";
            rv = aws_byte_buf_write(&b, s_src[0].p, n);
        } else {
            s_op = "write_u8_n(forged len)";
            rv = aws_byte_buf_write_u8_n(&b, 0x42, n);
        }
        tr(" %s(len=%zx cap=%zx,%zx)=%d", s_op, b.len, b.capacity, n, rv);
        outcome(s_op, false, rv);
        if (b.len != before.len || b.capacity != before.capacity || b.buffer != before.buffer) {
            viol("C01:failed-op-changed-buffer", "%s changed the struct (len 0x%zx -> 0x%zx)", s_op, before.len, b.len);
        }
        for (int q = 0; q < 8; ++q) {
            if (st[q] != 0x77) {
                viol("C01:failed-op-changed-buffer", "%s wrote to the storage", s_op);
                break;
            }
        }
        if (mon_fence_check(st)) {
            viol("C01:canary", "%s damaged a canary", s_op);
        }
        mon_fence_free(st);
    }
}

static void op_secure_other(struct mon_rng *r) {
    mon_fp(0x1C00);
    if (mon_chance(r, 1, 2)) {
        s_op = "aws_string_destroy_secure";
        uint8_t bytes[64];
        size_t n = mon_edge_size(r, 64);
        for (size_t q = 0; q < n; ++q) {
            bytes[q] = (uint8_t)(1 + mon_below(r, 255));
        }
        struct aws_string *s = aws_string_new_from_array(mon_guard_allocator(), bytes, n);
        sec_arm(s_op, s, offsetof(struct aws_string, bytes), n);
        aws_string_destroy_secure(s);
        sec_done(true);
        tr(" string_destroy_secure(%zu)", n);
    } else {
        s_op = "aws_array_list_clean_up_secure";
        struct aws_array_list l;
        size_t cap = 1 + (size_t)mon_below(r, 8), k = (size_t)mon_below(r, cap + 3);
        aws_array_list_init_dynamic(&l, mon_guard_allocator(), cap, sizeof(uint64_t));
        for (size_t q = 0; q < k; ++q) {
            uint64_t item = mon_rand(r) | 0x0101010101010101ULL;
            aws_array_list_push_back(&l, &item);
        }
        sec_arm(s_op, l.data, 0, l.current_size);
        aws_array_list_clean_up_secure(&l);
        sec_done(true);
        tr(" array_list_clean_up_secure(%zu/%zu)", k, cap);
    }
}

/* ------------------------------------------------------------------ case driver */
typedef void(op_fn)(struct mon_rng *r);
static const struct {
    op_fn *fn;
    unsigned weight;
} s_ops[] = {
    {op_init, 9},          {op_cleanup, 4},      {op_reset, 3},           {op_append, 16},      {op_append_dynamic, 18},
    {op_cat, 3},           {op_reserve, 9},      {op_write, 14},          {op_write_to_capacity, 4}, {op_buf_advance, 4},
    {op_cursor_advance, 9}, {op_cursor_read, 9}, {op_read_and_fill, 3},   {op_next_split, 4},   {op_split_list, 4},
    {op_find_exact, 3},    {op_trim, 3},         {op_compare, 5},         {op_parse, 3},        {op_file, 1},
    {op_nospec_mask, 1},   {op_forged, 2},       {op_secure_other, 1},
};
#define NOPS (sizeof(s_ops) / sizeof(s_ops[0]))
static unsigned s_total_weight;
static uint64_t s_n_ops;

static void make_sources(struct mon_rng *r) {
    static const char seps[] = ";;,, \t==&\n";
    static const char letters[] = "abcdefgXYZABCDEF0123456789";
    for (int k = 0; k < NSRC; ++k) {
        size_t n;
        uint8_t t[SRC_MAX];
        switch (k) {
            case 0: /* raw bytes, always long enough for exact-fit requests */
                n = SRC_MAX;
                mon_fill_random(r, t, n);
                if (mon_chance(r, 1, 2)) {
                    for (size_t q = 0; q < n; ++q) {
                        if (mon_chance(r, 1, 3)) {
                            t[q] = (uint8_t)"0123456789abcdefABCDEF;, "[mon_below(r, 25)];
                        }
                    }
                }
                break;
            case 1: /* separated tokens with surrounding white space */
                n = mon_edge_size(r, 200);
                for (size_t q = 0; q < n; ++q) {
                    unsigned w = (unsigned)mon_below(r, 10);
                    t[q] = (uint8_t)(w < 3 ? seps[mon_below(r, sizeof(seps) - 1)] : letters[mon_below(r, sizeof(letters) - 1)]);
                }
                for (size_t q = 0; q < n && q < 3 && mon_chance(r, 1, 2); ++q) {
                    t[q] = ' ';
                    t[n - 1 - q] = (uint8_t)(mon_chance(r, 1, 2) ? '\t' : ' ');
                }
                break;
            case 2: /* twin of #1: same length, case flipped here and there, rarely one byte changed */
                n = s_src[1].n;
                for (size_t q = 0; q < n; ++q) {
                    uint8_t c = s_src[1].copy[q];
                    if (mon_chance(r, 1, 3) && ((c >= 'a' && c <= 'z') || (c >= 'A' && c <= 'Z'))) {
                        c ^= 0x20;
                    }
                    t[q] = c;
                }
                if (n && mon_chance(r, 1, 4)) {
                    t[mon_below(r, n)] ^= (uint8_t)(1 + mon_below(r, 255));
                }
                break;
            case 3: /* digits / hex digits */
                n = mon_edge_size(r, 40);
                for (size_t q = 0; q < n; ++q) {
                    t[q] = (uint8_t)"0123456789abcdefABCDEF"[mon_below(r, mon_chance(r, 1, 2) ? 10 : 22)];
                }
                if (n && mon_chance(r, 1, 3)) {
                    t[mon_below(r, n)] = (uint8_t)"gG xX-/:@`"[mon_below(r, 10)];
                }
                break;
            default: /* copy of a stretch of #0 or #1: equality, prefix and find hits */
            {
                const struct msrc *o = &s_src[mon_below(r, 2)];
                n = mon_edge_size(r, o->n);
                size_t off = (size_t)mon_below(r, o->n - n + 1);
                memcpy(t, o->copy + off, n);
                break;
            }
        }
        s_src[k].n = n;
        s_src[k].p = mon_fence_new(n);
        s_src[k].copy = malloc(n + 1);
        memcpy(s_src[k].p, t, n);
        memcpy(s_src[k].copy, t, n);
        mon_fp(n);
    }
    s_table = mon_fence_new(256);
    for (int q = 0; q < 256; ++q) {
        s_table[q] = (uint8_t)q;
    }
    for (int q = 255; q > 0; --q) {
        int j = (int)mon_below(r, (uint64_t)q + 1);
        uint8_t x = s_table[q];
        s_table[q] = s_table[j];
        s_table[j] = x;
    }
    if (mon_chance(r, 1, 2)) {
        /* a many-to-one table makes compare_lookup ties likely */
        for (int q = 0; q < 256; ++q) {
            s_table[q] &= 0x0F;
        }
    }
}

/* ------------------------------------------------------------------ buffers of 16..40 MiB (real memory)
 * growth arithmetic that only changes above some size, on real appends: dynamic / secure / self-append */
static uint8_t bigpat(size_t i, uint32_t salt) {
    return (uint8_t)((i * 2654435761u + salt) >> 13);
}

static void big_append_case(uint64_t case_idx) {
    struct mon_rng *r = &mon_case_rng;
    struct aws_allocator *alloc = mon_chance(r, 1, 2) ? mon_guard_allocator_full() : mon_guard_allocator();
    static const size_t CAPS[] = {(size_t)16 << 20, ((size_t)16 << 20) + 1, ((size_t)16 << 20) - 1, (size_t)20 << 20, (size_t)24 << 20, ((size_t)32 << 20) - 7, (size_t)8 << 20};
    size_t cap = CAPS[mon_below(r, sizeof(CAPS) / sizeof(CAPS[0]))];
    (void)case_idx;
    s_op = "big_append";
    mon_fp(0xB16);
    mon_fp(cap);
    struct aws_byte_buf b;
    if (aws_byte_buf_init(&b, alloc, cap)) {
        mon_violation("C01:big:init", "aws_byte_buf_init(%zu) failed", cap);
        return;
    }
    /* fill level: full, 3/4 + a little, half */
    size_t fill = mon_chance(r, 1, 2) ? cap : mon_chance(r, 1, 2) ? cap / 4 * 3 + 64 : cap / 2;
    uint32_t salt = (uint32_t)mon_rand(r);
    for (size_t i = 0; i < fill; ++i) {
        b.buffer[i] = bigpat(i, salt);
    }
    b.len = fill;
    for (int step = 0; step < 3; ++step) {
        size_t old_len = b.len, old_cap = b.capacity;
        size_t room = old_cap - old_len;
        size_t piece;
        switch (mon_below(r, 7)) {
            case 0: piece = old_cap / 2 + 100; break;
            case 1: piece = old_cap / 4 * 3; break;
            case 2: piece = room + 1; break;
            case 3: piece = room + old_cap / 2 + 1 + (size_t)mon_below(r, 4096); break;
            case 4: piece = room + old_cap - 1; break;
            case 5: piece = 1 + (size_t)mon_below(r, 4096); break;
            default: piece = room + old_cap / 2 - (size_t)mon_below(r, 64); break;
        }
        if (old_len + piece > ((size_t)96 << 20)) {
            break;
        }
        unsigned how = (unsigned)mon_below(r, 4);
        uint8_t *src = NULL;
        struct aws_byte_cursor c;
        bool self = how == 3 && piece <= old_len;
        if (self) {
            c = aws_byte_cursor_from_array(b.buffer + (old_len - piece), piece); /* a cursor into the destination itself */
        } else {
            src = malloc(piece);
            for (size_t i = 0; i < piece; ++i) {
                src[i] = bigpat(old_len + i, salt);
            }
            c = aws_byte_cursor_from_array(src, piece);
        }
        int rc = (how == 1) ? aws_byte_buf_append_dynamic_secure(&b, &c) : aws_byte_buf_append_dynamic(&b, &c);
        tr(" big_%s(cap%zu len%zu +%zu)=%d->cap%zu", how == 1 ? "append_dynamic_secure" : self ? "self_append_dynamic" : "append_dynamic", old_cap, old_len, piece, rc, b.capacity);
        if (rc != AWS_OP_SUCCESS) {
            mon_violation("C01:big:append-failed", "append of %zu bytes to a buffer with len %zu cap %zu failed (error %d)", piece, old_len, old_cap, aws_last_error());
            free(src);
            break;
        }
        if (b.len != old_len + piece || b.capacity < b.len) {
            mon_violation("C01:len-gt-capacity", "dynamic append of %zu bytes to len %zu cap %zu: len is now %zu, capacity %zu", piece, old_len, old_cap, b.len, b.capacity);
            free(src);
            b.len = 0;
            break;
        }
        size_t bad = SIZE_MAX;
        for (size_t i = 0; i < old_len && bad == SIZE_MAX; ++i) {
            if (b.buffer[i] != bigpat(i, salt)) {
                bad = i;
            }
        }
        for (size_t i = 0; i < piece && bad == SIZE_MAX; ++i) {
            uint8_t want = self ? bigpat(old_len - piece + i, salt) : bigpat(old_len + i, salt);
            if (b.buffer[old_len + i] != want) {
                bad = old_len + i;
            }
        }
        if (bad != SIZE_MAX) {
            mon_violation("C01:contents", "after a dynamic append of %zu bytes to len %zu cap %zu (new cap %zu): byte %zu differs from what was written", piece, old_len, old_cap,
                          b.capacity, bad);
            free(src);
            break;
        }
        if (self) {
            /* keep the pattern consistent for the next step: rewrite the appended part */
            for (size_t i = 0; i < piece; ++i) {
                b.buffer[old_len + i] = bigpat(old_len + i, salt);
            }
        }
        free(src);
        mon_count("big_buffer_dynamic_appends", 1);
        if (old_cap >= ((size_t)16 << 20) && b.capacity != old_cap) {
            mon_flag(F_BIG_GROWTH);
        }
    }
    if (mon_chance(r, 1, 2)) {
        aws_byte_buf_clean_up_secure(&b);
    } else {
        aws_byte_buf_clean_up(&b);
    }
}

/* ------------------------------------------------------------------ printf helpers AWS_BYTE_CURSOR_PRI / AWS_BYTE_BUF_PRI
 * printing a view with "%.*s" may touch len bytes at most: the precision handed to printf must lie in [0, len]
 * (a negative precision means "no precision": printf would read on to the next NUL) */
static int pri_precision(int precision, const char *ptr) {
    (void)ptr;
    return precision;
}

static void check_pri_macros(struct mon_rng *r) {
    static const size_t LENS[] = {0, 1, 5, 0x7FFFFFFFu, 0x80000000u, 0x80000005u, 0xFFFFFFFFu, 0x100000000ull, 0x100000007ull, 0x280003000ull, 0x80003000u,
                                  SIZE_MAX / 2, SIZE_MAX / 2 + 1, SIZE_MAX - 2, SIZE_MAX};
    static uint8_t one[8];
    s_op = "AWS_BYTE_CURSOR_PRI";
    for (size_t i = 0; i < sizeof(LENS) / sizeof(LENS[0]); ++i) {
        struct aws_byte_cursor c = {.len = LENS[i], .ptr = one}; /* forged length: only the macro's arithmetic is evaluated */
        struct aws_byte_buf b = {.len = LENS[i], .buffer = one, .capacity = LENS[i], .allocator = NULL};
        int pc = pri_precision(AWS_BYTE_CURSOR_PRI(c));
        int pb = pri_precision(AWS_BYTE_BUF_PRI(b));
        if (pc < 0 || (size_t)pc > LENS[i] || pb < 0 || (size_t)pb > LENS[i]) {
            mon_violation("C01:pri-precision", "view of length 0x%zx: AWS_BYTE_CURSOR_PRI gives precision %d, AWS_BYTE_BUF_PRI %d (printf reads past the view when it is negative or above the length)",
                          LENS[i], pc, pb);
            return;
        }
    }
    /* a real view that ends at a fence and is not NUL-terminated */
    size_t n = (size_t)mon_below(r, 40);
    uint8_t *mem = mon_fence_new(n ? n : 1);
    for (size_t i = 0; i < n; ++i) {
        mem[i] = (uint8_t)('a' + mon_below(r, 26));
    }
    struct aws_byte_cursor c = aws_byte_cursor_from_array(mem, n);
    char out[64];
    int w = snprintf(out, sizeof(out), "[" PRInSTR "]", AWS_BYTE_CURSOR_PRI(c));
    if (w != (int)n + 2 || out[0] != '[' || memcmp(out + 1, mem, n) || out[n + 1] != ']') {
        mon_violation("C01:pri-output", "printing a %zu-byte cursor with PRInSTR gave %d characters: %.60s", n, w, out);
    }
    mon_fence_free(mem);
    mon_count("pri_macro_checks", 1);
}

static void run_case(uint64_t case_idx) {
    (void)case_idx;
    struct mon_rng *r = &mon_case_rng;
    struct mon_alloc_stats st0, st1;
    mon_guard_stats(&st0);
    s_bail = false;
    s_trace_len = 0;
    s_trace[0] = 0;
    s_op = "setup";
    for (int i = 0; i < NBUF; ++i) {
        s_buf[i].kind = B_NONE;
        s_buf[i].ptr = NULL;
        s_buf[i].fence = NULL;
        s_buf[i].len = s_buf[i].cap = 0;
        memset(&s_buf[i].b, 0, sizeof(s_buf[i].b));
        sh_reserve(&s_buf[i], 64);
    }
    make_sources(r);
    for (int i = 0; i < NCUR; ++i) {
        cur_set(i, C_NULL, 0, 0, 0);
        if (mon_chance(r, 2, 3)) {
            reseat_cur(r, i, SIZE_MAX, -1);
        }
    }
    uint64_t v0 = mon_violations();
    size_t nops = 1 + (size_t)mon_below(r, 60);
    size_t warm = 1 + (size_t)mon_below(r, 3);
    for (size_t k = 0; k < warm + nops && !s_bail && mon_violations() < v0 + 4; ++k) {
        if (k < warm) {
            op_init(r);
        } else {
            unsigned w = (unsigned)mon_below(r, s_total_weight);
            size_t o = 0;
            while (w >= s_ops[o].weight) {
                w -= s_ops[o].weight;
                ++o;
            }
            s_ops[o].fn(r);
        }
        ++s_n_ops;
        cursors_revalidate();
        check_all();
    }
    /* wind down: every remaining buffer goes back, alternating plain and secure clean-up */
    for (int i = 0; i < NBUF; ++i) {
        if (s_buf[i].kind == B_NONE) {
            continue;
        }
        if (s_bail) {
            /* model and object may disagree: release through the object's own fields, no oracle */
            void *f = s_buf[i].fence;
            aws_byte_buf_clean_up(&s_buf[i].b);
            if (f) {
                mon_fence_free(f);
            }
            s_buf[i].kind = B_NONE;
            s_buf[i].fence = NULL;
        } else {
            do_cleanup(r, i, (i & 1) != 0);
        }
    }
    s_op = "end of case";
    for (int k = 0; k < NSRC; ++k) {
        if (s_src[k].n && memcmp(s_src[k].p, s_src[k].copy, s_src[k].n)) {
            viol("C01:source-modified", "read-only input #%d was modified", k);
        }
        if (mon_fence_check(s_src[k].p)) {
            viol("C01:canary", "canary next to read-only input #%d damaged", k);
        }
        mon_fence_free(s_src[k].p);
        free(s_src[k].copy);
        s_src[k].p = s_src[k].copy = NULL;
    }
    if (mon_fence_check(s_table)) {
        viol("C01:canary", "canary next to the lookup table damaged");
    }
    mon_fence_free(s_table);
    s_table = NULL;
    mon_guard_stats(&st1);
    if (st1.live_blocks != st0.live_blocks) {
        viol("C01:leak", "allocator imbalance at the end of the case: %lld block(s)", (long long)(st1.live_blocks - st0.live_blocks));
    }
}

/* ------------------------------------------------------------------ secure wipes of short interior views
 * aws_secure_zero and the calls built on it (aws_byte_buf_secure_zero, reset(buf, true), clean_up_secure) are given views of
 * 0..24 bytes at every address alignment inside a 64-byte region whose last byte is followed by an inaccessible page:
 * exactly the view's bytes become zero, every other byte of the region keeps its value. */
#include <sys/mman.h>
static void check_secure_views(struct mon_rng *r) {
    static uint8_t *page;
    if (!page) {
        page = mmap(NULL, 8192, PROT_READ | PROT_WRITE, MAP_PRIVATE | MAP_ANONYMOUS, -1, 0);
        if (page == MAP_FAILED || mprotect(page + 4096, 4096, PROT_NONE)) {
            page = NULL;
            mon_count("secure_view_checks_skipped_no_mmap", 1);
            return;
        }
    }
    uint8_t *reg = page + 4096 - 64;
    for (int round = 0; round < 24; ++round) {
        uint8_t before[64];
        for (int i = 0; i < 64; ++i) {
            reg[i] = before[i] = (uint8_t)(1 + mon_below(r, 255)); /* never zero */
        }
        size_t n = mon_chance(r, 3, 4) ? (size_t)mon_below(r, 8) : (size_t)mon_below(r, 25);
        size_t o = mon_chance(r, 1, 3) ? 64 - n - (size_t)mon_below(r, 2 < 64 - n ? 2 : 1) : (size_t)mon_below(r, 64 - n + 1);
        unsigned how = (unsigned)mon_below(r, 5);
        const char *what;
        struct aws_byte_buf v = aws_byte_buf_from_empty_array(reg + o, n);
        if (how == 0) {
            what = "aws_secure_zero";
            aws_secure_zero(reg + o, n);
        } else if (how == 1) {
            what = "aws_byte_buf_secure_zero";
            aws_byte_buf_secure_zero(&v);
        } else if (how == 2) {
            what = "aws_byte_buf_reset(buf, true)";
            v.len = n ? (size_t)mon_below(r, n + 1) : 0;
            aws_byte_buf_reset(&v, true);
        } else if (how == 3) {
            what = "aws_byte_buf_clean_up_secure";
            aws_byte_buf_clean_up_secure(&v);
        } else {
            /* a sub-buffer carved out of a parent by aws_byte_buf_advance */
            what = "aws_byte_buf_secure_zero of a sub-buffer from aws_byte_buf_advance";
            struct aws_byte_buf parent = aws_byte_buf_from_empty_array(reg, 64), skip, sub;
            AWS_ZERO_STRUCT(skip);
            AWS_ZERO_STRUCT(sub);
            if (!aws_byte_buf_advance(&parent, &skip, o) || !aws_byte_buf_advance(&parent, &sub, n) || sub.buffer != (n ? reg + o : sub.buffer)) {
                if (o || n) {
                    viol("C01:secure-view", "aws_byte_buf_advance(%zu) then (%zu) on an empty 64-byte buffer failed or returned another place", o, n);
                }
                continue;
            }
            aws_byte_buf_secure_zero(&sub);
        }
        ++s_n_secure_views;
        if (n && n < 8 && ((uintptr_t)(reg + o) & 7)) {
            mon_flag(F_SECURE_SHORT_UNALIGNED);
        }
        for (size_t i = 0; i < 64; ++i) {
            bool inside = i >= o && i < o + n;
            if (inside ? reg[i] != 0 : reg[i] != before[i]) {
                viol(inside ? "C01:secure-zero-incomplete" : "C01:secure-zero-outside-view",
                     "%s on a view of %zu bytes at offset %zu (address %% 8 = %u) of a 64-byte region: byte %zu is 0x%02x, %s", what, n, o,
                     (unsigned)((uintptr_t)(reg + o) & 7), i, reg[i], inside ? "expected 0" : "was not part of the view and changed");
                break;
            }
        }
    }
}

int main(int argc, char **argv) {
    mon_init(argc, argv, "C01");
    aws_common_library_init(aws_default_allocator());
    for (int i = 0; i < F_NFLAGS; ++i) {
        mon_flag_name(i, s_flag_names[i]);
    }
    for (size_t o = 0; o < NOPS; ++o) {
        s_total_weight += s_ops[o].weight;
    }
    mon_guard_set_release_hook(release_hook, NULL);
    files_create();
    uint64_t c;
    while (mon_next_case(&c)) {
        mon_case_begin(c);
        if (c % 512 == 511) {
            big_append_case(c);
        } else {
            run_case(c);
        }
        if (c % 16 == 0) {
            check_pri_macros(&mon_case_rng);
        }
        if (c % 16 == 8) {
            check_secure_views(&mon_case_rng);
        }
        mon_case_end(mon_flag_count() >= 3);
    }
    files_remove();
    mon_count("calls", s_n_ops);
    mon_count("failed_calls_compared_with_snapshot", s_n_failchecks);
    mon_count("secure_releases_inspected", s_n_sec);
    mon_count("secure_wipes_of_interior_views", s_n_secure_views);
    mon_count("secure_releases_nonzero_before_call", s_n_sec_nonzero);
    mon_count("procfs_unavailable", s_n_proc_unavailable);
    mon_count("failed_advance_changed_forged_cursor", s_n_half_clobber);
    return mon_finish();
}
