/*
 * C05 - base64 / hex / UTF-8 codecs are exact, canonical and CPU-path independent
 * (DESIGN.md section 5, C05).
 *
 * One process runs on ONE CPU path: the driver starts the same harness with AWS_COMMON_AVX2=1 and with
 * AWS_COMMON_AVX2=0 (--p0 1 / --p0 0 tells the harness which path it is supposed to be on). The process
 * verifies the path (host capability through aws_cpu_has_feature, the library's dispatch predicate, and a
 * behavioural probe), then compares every library result with a strict, table-free RFC 4648 reference
 * written below. Inputs depend on (seed, case) only - never on the path or on a library result - so the two
 * processes see the same inputs; per-case digests of inputs and of results are written out so that the
 * driver can compare the two paths block by block (tools/oracles/c05_codecs.py).
 *
 * --p0 intended path (1 vector, 0 portable)   --p1 repetitions of the exhaustive sweeps (default 1)
 */
#include "mon.h"

#include <aws/common/byte_buf.h>
#include <aws/common/common.h>
#include <aws/common/cpuid.h>
#include <aws/common/encoding.h>
#include <aws/common/error.h>

#include <stdlib.h>

/* the library's private dispatch predicate (source/arch/intel/cpuid.c); reads AWS_COMMON_AVX2 once */
bool aws_common_private_has_avx2(void);

#if defined(VERIF_VARIANT_REL)
#    define VARIANT "rel"
#elif defined(VERIF_VARIANT_ASAN)
#    define VARIANT "asan"
#else
#    define VARIANT "other"
#endif

#define MAXBIN 4200
#define MAXTEXT 5700
#define MAXCP 96
#define MAXU8 64

enum {
    F_ENC_NOPAD, F_ENC_PAD1, F_ENC_PAD2, F_ENC_APPEND_AT_LEN, F_SHORT_REFUSED, F_LARGER_CAP, F_ROUNDTRIP,
    F_DEC_ACCEPT_NOPAD, F_DEC_ACCEPT_PAD1, F_DEC_ACCEPT_PAD2, F_DEC_REJECT_ALPHABET, F_DEC_REJECT_PAD_POSITION,
    F_DEC_REJECT_PAD_BITS, F_DEC_REJECT_LENGTH, F_DEC_PRELEN, F_BODY_GT_32, F_LONG_INPUT, F_HEX_ENC, F_HEX_DEC_EVEN,
    F_HEX_DEC_ODD, F_HEX_DEC_UPPER, F_HEX_REJECT, F_HEX_APPEND_DYNAMIC, F_UTF8_VALID_MULTIBYTE, F_UTF8_INVALID,
    F_UTF8_SPLIT_INSIDE_CODEPOINT, F_UTF8_EMPTY_CHUNK, F_UTF8_CALLBACK_ABORT, F_UTF8_REUSE_AFTER_ERROR,
    F_UTF8_ABOVE_10FFFF, F_LEN_OVERFLOW, F_UTF8_BOM_PREFIX, F_NFLAGS
};
static const char *s_flag_names[F_NFLAGS] = {
    "b64_encode_no_padding", "b64_encode_one_pad", "b64_encode_two_pads", "b64_encode_appended_at_len",
    "short_buffer_refused_nothing_written", "larger_capacity", "b64_roundtrip", "b64_decode_accept_no_padding",
    "b64_decode_accept_one_pad", "b64_decode_accept_two_pads", "b64_decode_reject_alphabet",
    "b64_decode_reject_pad_position", "b64_decode_reject_pad_bits", "b64_decode_reject_length",
    "decode_with_preexisting_len", "b64_input_longer_than_one_vector", "b64_input_4090_4100", "hex_encode",
    "hex_decode_even", "hex_decode_odd_length", "hex_decode_uppercase", "hex_decode_reject", "hex_append_dynamic",
    "utf8_valid_multibyte", "utf8_invalid_text", "utf8_split_inside_codepoint", "utf8_empty_chunk",
    "utf8_callback_abort", "utf8_decoder_reused_after_error", "utf8_above_10ffff_seen", "length_fn_overflow_refused",
    "utf8_text_with_bom_prefix"};

enum { K_B64ENC = 1, K_B64DEC, K_HEXENC, K_HEXDEC, K_HEXAPP, K_UTF8, K_LENFN };
static const char *s_kind_names[] = {"?", "aws_base64_encode", "aws_base64_decode", "aws_hex_encode", "aws_hex_decode",
                                     "aws_hex_encode_append_dynamic", "utf8", "length function"};

static int s_intended;     /* 1 vector, 0 portable */
static bool s_skip_b64;    /* host cannot execute the intended path */
static bool s_on_vector;   /* verified */
static uint64_t s_din, s_dres; /* per-case digests: inputs / results the property requires to be path independent */
static uint64_t s_case;

/* ============================================================ digests, cross-path files */
static void dg(uint64_t *d, uint64_t v) {
    *d = (*d ^ v) * 1099511628211ULL;
    *d ^= *d >> 31;
}
static void dg_bytes(uint64_t *d, const uint8_t *p, size_t n) {
    for (size_t i = 0; i < n; ++i) {
        *d = (*d ^ p[i]) * 1099511628211ULL;
    }
    *d ^= *d >> 29;
}

static FILE *s_xd, *s_py;
static uint64_t s_blk = UINT64_MAX, s_blk_n, s_blk_in, s_blk_res;
static uint64_t s_sum_in32, s_sum_res32;
static unsigned s_py_records;
#define PY_MAX_RECORDS 1500

static void xd_flush(void) {
    if (s_blk != UINT64_MAX && s_xd) {
        uint64_t rec[4] = {s_blk, s_blk_n, s_blk_in, s_blk_res};
        fwrite(rec, sizeof(uint64_t), 4, s_xd);
    }
}
static void xd_case(uint64_t c, uint64_t din, uint64_t dres) {
    uint64_t b = c / 64;
    if (b != s_blk) {
        xd_flush();
        s_blk = b;
        s_blk_n = s_blk_in = s_blk_res = 0;
    }
    ++s_blk_n;
    s_blk_in += din;
    s_blk_res += dres;
    s_sum_in32 += din & 0xffffffffu;
    s_sum_res32 += dres & 0xffffffffu;
}

static bool py_want(size_t n) {
    return s_py && s_py_records < PY_MAX_RECORDS && n <= 400 && ((s_case * 0x9E3779B97F4A7C15ULL) >> 61) == 0;
}
static void py_hex(const uint8_t *p, size_t n) {
    fputc('"', s_py);
    for (size_t i = 0; i < n; ++i) {
        fprintf(s_py, "%02x", p[i]);
    }
    fputc('"', s_py);
}
static void py_dump(const char *kind, const uint8_t *in, size_t n, bool ok, const uint8_t *out, size_t m) {
    if (!py_want(n)) {
        return;
    }
    ++s_py_records;
    fprintf(s_py, "{\"k\":\"%s\",\"case\":%llu,\"in\":", kind, (unsigned long long)s_case);
    py_hex(in, n);
    fprintf(s_py, ",\"ok\":%s,\"out\":", ok ? "true" : "false");
    py_hex(out, ok ? m : 0);
    fputs("}\n", s_py);
}

/* ============================================================ reference codecs (table-free, from RFC 4648 / RFC 3629) */
static uint8_t ref_b64_char(unsigned v) {
    if (v < 26) {
        return (uint8_t)('A' + v);
    }
    if (v < 52) {
        return (uint8_t)('a' + (v - 26));
    }
    if (v < 62) {
        return (uint8_t)('0' + (v - 52));
    }
    return v == 62 ? '+' : '/';
}
static int ref_b64_val(uint8_t c) {
    if (c >= 'A' && c <= 'Z') {
        return c - 'A';
    }
    if (c >= 'a' && c <= 'z') {
        return c - 'a' + 26;
    }
    if (c >= '0' && c <= '9') {
        return c - '0' + 52;
    }
    if (c == '+') {
        return 62;
    }
    if (c == '/') {
        return 63;
    }
    return -1;
}
static size_t ref_b64_encode(const uint8_t *in, size_t n, uint8_t *out) {
    size_t o = 0, i = 0;
    for (; i + 3 <= n; i += 3) {
        unsigned w = ((unsigned)in[i] << 16) | ((unsigned)in[i + 1] << 8) | in[i + 2];
        out[o++] = ref_b64_char(w >> 18);
        out[o++] = ref_b64_char((w >> 12) & 63);
        out[o++] = ref_b64_char((w >> 6) & 63);
        out[o++] = ref_b64_char(w & 63);
    }
    if (n - i == 1) {
        unsigned w = (unsigned)in[i] << 16;
        out[o++] = ref_b64_char(w >> 18);
        out[o++] = ref_b64_char((w >> 12) & 63);
        out[o++] = '=';
        out[o++] = '=';
    } else if (n - i == 2) {
        unsigned w = ((unsigned)in[i] << 16) | ((unsigned)in[i + 1] << 8);
        out[o++] = ref_b64_char(w >> 18);
        out[o++] = ref_b64_char((w >> 12) & 63);
        out[o++] = ref_b64_char((w >> 6) & 63);
        out[o++] = '=';
    }
    return o;
}

enum { R_OK, R_LENGTH, R_ALPHABET, R_PAD_POSITION, R_PAD_BITS };
static const char *s_reason_names[] = {"well-formed", "length not a multiple of 4", "character outside the alphabet",
                                       "'=' somewhere else than the last one or two characters", "non-zero pad bits"};

/* strict: alphabet only, '=' only as the last one or two characters of the final quantum, zero pad bits */
static int ref_b64_decode(const uint8_t *t, size_t n, uint8_t *out, size_t *m) {
    *m = 0;
    if (n % 4) {
        return R_LENGTH;
    }
    size_t q = n / 4, o = 0;
    for (size_t k = 0; k < q; ++k) {
        const uint8_t *c = t + 4 * k;
        bool last = k + 1 == q;
        int v[4];
        for (int j = 0; j < 4; ++j) {
            v[j] = ref_b64_val(c[j]);
            if (v[j] < 0) {
                if (c[j] != '=') {
                    return R_ALPHABET;
                }
                if (!last || j < 2) {
                    /* look ahead: a foreign character later in this quantum is still an alphabet error either way */
                    return R_PAD_POSITION;
                }
            }
        }
        if (last && c[2] == '=') {
            if (c[3] != '=') {
                return R_PAD_POSITION;
            }
            if (v[1] & 0x0F) {
                return R_PAD_BITS;
            }
            out[o++] = (uint8_t)((v[0] << 2) | (v[1] >> 4));
        } else if (last && c[3] == '=') {
            if (v[2] & 0x03) {
                return R_PAD_BITS;
            }
            out[o++] = (uint8_t)((v[0] << 2) | (v[1] >> 4));
            out[o++] = (uint8_t)(((v[1] & 0x0F) << 4) | (v[2] >> 2));
        } else {
            out[o++] = (uint8_t)((v[0] << 2) | (v[1] >> 4));
            out[o++] = (uint8_t)(((v[1] & 0x0F) << 4) | (v[2] >> 2));
            out[o++] = (uint8_t)(((v[2] & 0x03) << 6) | v[3]);
        }
    }
    *m = o;
    return R_OK;
}

static uint8_t ref_hex_digit(unsigned v) {
    return (uint8_t)(v < 10 ? '0' + v : 'a' + (v - 10));
}
static int ref_hex_val(uint8_t c) {
    if (c >= '0' && c <= '9') {
        return c - '0';
    }
    if (c >= 'a' && c <= 'f') {
        return c - 'a' + 10;
    }
    if (c >= 'A' && c <= 'F') {
        return c - 'A' + 10;
    }
    return -1;
}
static size_t ref_hex_encode(const uint8_t *in, size_t n, uint8_t *out) {
    for (size_t i = 0; i < n; ++i) {
        out[2 * i] = ref_hex_digit(in[i] >> 4);
        out[2 * i + 1] = ref_hex_digit(in[i] & 15);
    }
    return 2 * n;
}
/* odd length: as if a '0' were prepended (documented at aws_hex_compute_decoded_len) */
static bool ref_hex_decode(const uint8_t *t, size_t n, uint8_t *out, size_t *m) {
    size_t o = 0, i = 0;
    *m = 0;
    if (n & 1) {
        int v = ref_hex_val(t[0]);
        if (v < 0) {
            return false;
        }
        out[o++] = (uint8_t)v;
        i = 1;
    }
    for (; i < n; i += 2) {
        int h = ref_hex_val(t[i]), l = ref_hex_val(t[i + 1]);
        if (h < 0 || l < 0) {
            return false;
        }
        out[o++] = (uint8_t)(h * 16 + l);
    }
    *m = o;
    return true;
}

struct u8res {
    bool ok;
    size_t n;
    uint32_t cps[MAXCP];
    size_t err_at; /* byte offset of the first ill-formed sequence, or text length */
};
/* whole-sequence decoder written from RFC 3629. max_cp = 0x10FFFF is the RFC; see check_utf8 for why the
 * model the library is held to uses 0x1FFFFF. */
static void ref_utf8(const uint8_t *t, size_t n, uint32_t max_cp, struct u8res *r) {
    r->ok = false;
    r->n = 0;
    size_t i = 0;
    while (i < n) {
        uint8_t b = t[i];
        size_t len;
        uint32_t cp, min;
        if (b < 0x80) {
            len = 1, cp = b, min = 0;
        } else if (b >= 0xC0 && b <= 0xDF) {
            len = 2, cp = b & 0x1Fu, min = 0x80;
        } else if (b >= 0xE0 && b <= 0xEF) {
            len = 3, cp = b & 0x0Fu, min = 0x800;
        } else if (b >= 0xF0 && b <= 0xF7) {
            len = 4, cp = b & 0x07u, min = 0x10000;
        } else {
            break;
        }
        if (n - i < len) {
            /* truncated; a wrong continuation byte inside the available part is an error as well: same verdict */
            break;
        }
        bool bad = false;
        for (size_t k = 1; k < len; ++k) {
            if (t[i + k] < 0x80 || t[i + k] > 0xBF) {
                bad = true;
                break;
            }
            cp = cp * 64 + (t[i + k] - 0x80u);
        }
        if (bad || cp < min || (cp >= 0xD800 && cp <= 0xDFFF) || cp > max_cp) {
            break;
        }
        if (r->n < MAXCP) {
            r->cps[r->n] = cp;
        }
        ++r->n;
        i += len;
    }
    r->err_at = i;
    r->ok = i == n;
}

/* ============================================================ generic codec call with fenced output */
typedef int(codec_fn)(const struct aws_byte_cursor *, struct aws_byte_buf *);
struct runres {
    int kind;
    int rc, err;
    size_t len, cap, prelen;
    uint8_t fill;
    uint8_t *mem; /* fenced storage of exactly cap bytes (NULL when cap == 0) */
};

static uint8_t initial_byte(const struct runres *r, size_t i) {
    return i < r->prelen ? (uint8_t)(~r->fill ^ (uint8_t)(i * 16 + 1)) : r->fill;
}
/* first index in [a,b) whose byte differs from what the harness put there, or b */
static size_t first_touched(const struct runres *r, size_t a, size_t b) {
    for (size_t i = a; i < b && i < r->cap; ++i) {
        if (r->mem[i] != initial_byte(r, i)) {
            return i;
        }
    }
    return b;
}

static uint64_t s_calls[8];

static void run_codec(int kind, codec_fn *fn, const struct aws_byte_cursor *cur, size_t cap, uint8_t fill, size_t prelen,
                      struct runres *r) {
    r->kind = kind;
    r->cap = cap;
    r->fill = fill;
    r->prelen = prelen;
    r->mem = cap ? mon_fence_new(cap) : NULL;
    for (size_t i = 0; i < cap; ++i) {
        r->mem[i] = initial_byte(r, i);
    }
    struct aws_byte_buf b;
    memset(&b, 0, sizeof(b));
    b.buffer = r->mem;
    b.capacity = cap;
    b.len = prelen;
    dg(&s_din, (uint64_t)kind);
    dg(&s_din, cur->len);
    dg_bytes(&s_din, cur->ptr, cur->len);
    dg(&s_din, cap * 1000003u + prelen * 257u + fill);
    mon_poison_last_error(&mon_case_rng);
    r->rc = fn(cur, &b);
    r->err = r->rc ? aws_last_error() : 0;
    r->len = b.len;
    ++s_calls[kind];
    MON_CHECK(b.buffer == r->mem && b.capacity == cap, "C05:output-struct-changed",
              "%s changed buffer/capacity of the caller's aws_byte_buf (capacity %zu -> %zu)", s_kind_names[kind], cap,
              b.capacity);
    if (r->mem && mon_fence_check(r->mem)) {
        mon_violation("C05:canary", "%s wrote outside its %zu-byte output storage (input %zu bytes: %s)", s_kind_names[kind],
                      cap, cur->len, mon_hex(cur->ptr, cur->len, 80));
    }
    /* what the property requires to be path independent: verdict, and on success the reported length + bytes */
    dg(&s_dres, (uint64_t)kind * 4 + (r->rc == 0));
    if (r->rc) {
        dg(&s_dres, (uint64_t)r->err);
    } else {
        size_t from = kind == K_B64ENC ? prelen : 0;
        size_t upto = r->len < cap ? r->len : cap;
        dg(&s_dres, r->len);
        if (upto > from) {
            dg_bytes(&s_dres, r->mem + from, upto - from);
        }
    }
}
static void run_free(struct runres *r) {
    if (r->mem) {
        mon_fence_free(r->mem);
        r->mem = NULL;
    }
}

/* exact-size fenced copy of an input (ASan red zone right behind the last input byte) */
static uint8_t *in_copy(const uint8_t *p, size_t n) {
    uint8_t *c = mon_fence_new(n);
    if (n) {
        memcpy(c, p, n);
    }
    return c;
}

/* a failed call must leave len alone; SHORT_BUFFER must additionally leave every byte alone */
static void expect_short_buffer(const struct runres *r, const char *what, const uint8_t *in, size_t n) {
    if (r->rc == 0) {
        mon_violation("C05:short-buffer:accepted", "%s: capacity %zu (pre-existing len %zu) is one short, call succeeded; input %s",
                      what, r->cap, r->prelen, mon_hex(in, n, 64));
        return;
    }
    MON_CHECK(r->err == AWS_ERROR_SHORT_BUFFER, "C05:short-buffer:error-code", "%s: capacity one short: error %d (%s), expected AWS_ERROR_SHORT_BUFFER",
              what, r->err, aws_error_name(r->err));
    size_t t = first_touched(r, 0, r->cap);
    MON_CHECK(t == r->cap, "C05:short-buffer:wrote", "%s: refused for lack of capacity (%zu) but byte %zu of the output storage was modified; input %s",
              what, r->cap, t, mon_hex(in, n, 64));
    MON_CHECK(r->len == r->prelen, "C05:failed-call-changed-len", "%s: failed but len went %zu -> %zu", what, r->prelen, r->len);
    mon_flag(F_SHORT_REFUSED);
}

/* ============================================================ base64 */
#define V_SHORT 1u
#define V_LARGER 2u
#define V_PRELEN 4u
#define V_NULLIN 8u

static uint8_t s_ref_text[MAXTEXT + 8];
static uint8_t s_ref_bin[MAXTEXT + 8];

/* compare one successful decode-like result with the reference bytes */
static void expect_bytes(const struct runres *r, const char *keybase, const uint8_t *in, size_t n, const uint8_t *want, size_t m,
                         size_t from) {
    char key[96];
    if (r->len != from + m) {
        snprintf(key, sizeof(key), "%s:length", keybase);
        mon_violation(key, "%s: input (%zu bytes) %s: reported len %zu, reference produces %zu (+%zu pre-existing)",
                      s_kind_names[r->kind], n, mon_hex(in, n, 80), r->len, m, from);
        return;
    }
    for (size_t i = 0; i < m && from + i < r->cap; ++i) {
        if (r->mem[from + i] != want[i]) {
            snprintf(key, sizeof(key), "%s:bytes", keybase);
            mon_violation(key, "%s: input (%zu bytes) %s: output byte %zu is %02x, reference %02x (fill was %02x); output %s", s_kind_names[r->kind], n,
                          mon_hex(in, n, 80), i, r->mem[from + i], want[i], r->fill, mon_hex(r->mem + from, m, 48));
            return;
        }
    }
}

/* written-bytes oracle: the same call into a 0xA5- and a 0x5A-filled buffer; a byte below the reported len that differs
 * between the two runs was never written */
static void expect_written(const struct runres *a, const struct runres *b, const char *keybase, const uint8_t *in, size_t n) {
    char key[96];
    if ((a->rc == 0) != (b->rc == 0) || a->len != b->len) {
        snprintf(key, sizeof(key), "%s:not-a-function-of-input", keybase);
        mon_violation(key, "%s on %s: rc/len differ between two identical calls (%d/%zu vs %d/%zu)", s_kind_names[a->kind],
                      mon_hex(in, n, 80), a->rc, a->len, b->rc, b->len);
        return;
    }
    if (a->rc) {
        return;
    }
    if (a->len > a->cap) {
        snprintf(key, sizeof(key), "%s:len-exceeds-capacity", keybase);
        mon_violation(key, "%s on %s: reported len %zu > capacity %zu", s_kind_names[a->kind], mon_hex(in, n, 80), a->len, a->cap);
        return;
    }
    for (size_t i = 0; i < a->len; ++i) {
        if (a->mem[i] != b->mem[i]) {
            snprintf(key, sizeof(key), "%s:reported-unwritten-bytes", keybase);
            mon_violation(key, "%s on (%zu bytes) %s: reports len %zu but byte %zu was never written (reads %02x over a5-fill, %02x over 5a-fill)",
                          s_kind_names[a->kind], n, mon_hex(in, n, 80), a->len, i, a->mem[i], b->mem[i]);
            return;
        }
    }
}

static void note_beyond_len(const struct runres *r) {
    if (r->rc == 0 && r->len < r->cap) {
        if (first_touched(r, r->len, r->cap) != r->cap) {
            mon_count("wrote_beyond_len_within_capacity", 1); /* not forbidden by the property: counted, not judged */
        } else {
            mon_count("larger_capacity_tail_untouched", 1);
        }
        mon_flag(F_LARGER_CAP);
    }
}

static void check_b64_decode(const uint8_t *text, size_t n, unsigned var) {
    struct mon_rng *rng = &mon_case_rng;
    size_t m = 0;
    int reason = ref_b64_decode(text, n, s_ref_bin, &m);
    bool ok = reason == R_OK;
    /* decisions are drawn before any library call and never depend on one */
    size_t extra = 1 + (size_t)mon_below(rng, 40);
    size_t pre_pick = (size_t)mon_rand(rng);
    mon_count(ok ? "b64_decode_inputs_wellformed" : "b64_decode_inputs_malformed", 1);
    if (s_skip_b64) {
        return;
    }
    uint8_t *in = (n == 0 && (var & V_NULLIN)) ? NULL : in_copy(text, n);
    struct aws_byte_cursor cur;
    cur.ptr = in;
    cur.len = n;

    size_t pred = SIZE_MAX;
    mon_poison_last_error(&mon_case_rng);
    int lrc = aws_base64_compute_decoded_len(&cur, &pred);
    ++s_calls[K_LENFN];
    if (n % 4) {
        MON_CHECK(lrc != 0, "C05:b64-decoded-len:accepted-bad-length", "aws_base64_compute_decoded_len accepted a text of %zu characters", n);
    } else if (ok) {
        MON_CHECK(lrc == 0 && pred == m, "C05:b64-decoded-len:wrong", "aws_base64_compute_decoded_len(%s) = rc %d, %zu; decoding produces %zu bytes",
                  mon_hex(text, n, 80), lrc, pred, m);
    }
    dg(&s_dres, (uint64_t)(lrc == 0) + (lrc == 0 ? pred * 2 : 0));

    size_t cap = ok ? m : (n / 4) * 3;
    struct runres a, b;
    run_codec(K_B64DEC, aws_base64_decode, &cur, cap, 0xA5, 0, &a);
    run_codec(K_B64DEC, aws_base64_decode, &cur, cap, 0x5A, 0, &b);
    expect_written(&a, &b, "C05:b64-decode", text, n);
    if (ok) {
        if (a.rc) {
            mon_violation("C05:b64-decode:rejected-wellformed", "well-formed text (%zu chars) %s rejected with error %d (%s) on the %s path", n,
                          mon_hex(text, n, 100), a.err, aws_error_name(a.err), s_on_vector ? "vector" : "portable");
        } else {
            expect_bytes(&a, "C05:b64-decode", text, n, s_ref_bin, m, 0);
            expect_bytes(&b, "C05:b64-decode", text, n, s_ref_bin, m, 0);
            size_t pad = n ? (text[n - 1] == '=') + (text[n - 2] == '=') : 0;
            mon_flag(pad == 0 ? F_DEC_ACCEPT_NOPAD : pad == 1 ? F_DEC_ACCEPT_PAD1 : F_DEC_ACCEPT_PAD2);
        }
        py_dump("b64dec", text, n, a.rc == 0, a.mem, a.rc == 0 && a.len <= a.cap ? a.len : 0);
    } else {
        if (a.rc == 0) {
            mon_violation("C05:b64-decode:accepted-malformed", "malformed text (%s) %s accepted on the %s path: reported len %zu, bytes %s",
                          s_reason_names[reason], mon_hex(text, n, 100), s_on_vector ? "vector" : "portable", a.len,
                          mon_hex(a.mem, a.len < a.cap ? a.len : a.cap, 32));
        } else {
            MON_CHECK(a.err == AWS_ERROR_INVALID_BASE64_STR, "C05:b64-decode:error-code", "malformed text (%s) %s: error %d (%s), expected AWS_ERROR_INVALID_BASE64_STR",
                      s_reason_names[reason], mon_hex(text, n, 60), a.err, aws_error_name(a.err));
            MON_CHECK(a.len == 0 && b.len == 0, "C05:failed-call-changed-len", "aws_base64_decode failed but set len to %zu", a.len);
            mon_flag(reason == R_LENGTH ? F_DEC_REJECT_LENGTH : reason == R_ALPHABET ? F_DEC_REJECT_ALPHABET
                     : reason == R_PAD_POSITION ? F_DEC_REJECT_PAD_POSITION : F_DEC_REJECT_PAD_BITS);
        }
        if (n <= 400 && a.rc == 0) {
            py_dump("b64dec", text, n, true, a.mem, a.len <= a.cap ? a.len : 0);
        }
    }
    if (n > 32) {
        mon_flag(F_BODY_GT_32);
    }
    run_free(&a);
    run_free(&b);

    if (ok && m >= 1 && (var & V_SHORT)) {
        struct runres s;
        size_t pre = (var & V_PRELEN) ? pre_pick % m : 0; /* <= m-1 = capacity */
        run_codec(K_B64DEC, aws_base64_decode, &cur, m - 1, 0xA5, pre, &s);
        expect_short_buffer(&s, "aws_base64_decode", text, n);
        run_free(&s);
    }
    if (ok && (var & V_LARGER)) {
        struct runres l;
        run_codec(K_B64DEC, aws_base64_decode, &cur, m + extra, 0x5A, 0, &l);
        if (l.rc) {
            mon_violation("C05:b64-decode:rejected-wellformed", "well-formed text %s rejected (error %d) with capacity %zu > needed %zu",
                          mon_hex(text, n, 100), l.err, m + extra, m);
        } else {
            expect_bytes(&l, "C05:b64-decode", text, n, s_ref_bin, m, 0);
            note_beyond_len(&l);
        }
        run_free(&l);
    }
    if (ok && m >= 1 && (var & V_PRELEN)) {
        /* the decoder is documented to store the result (it starts at offset 0 and sets len) */
        struct runres p;
        size_t pre = 1 + pre_pick % m;
        run_codec(K_B64DEC, aws_base64_decode, &cur, m, 0xA5, pre, &p);
        if (p.rc) {
            mon_violation("C05:b64-decode:rejected-wellformed", "well-formed text %s rejected (error %d) when output had pre-existing len %zu of capacity %zu",
                          mon_hex(text, n, 100), p.err, pre, m);
        } else {
            expect_bytes(&p, "C05:b64-decode:prelen", text, n, s_ref_bin, m, 0);
            mon_flag(F_DEC_PRELEN);
        }
        run_free(&p);
    }
    if (in) {
        mon_fence_free(in);
    }
}

/* data -> text through the library, compared with the reference; then the library's own text back through the library */
static void check_b64_encode(const uint8_t *data, size_t L, unsigned var, bool all_prelens) {
    struct mon_rng *rng = &mon_case_rng;
    size_t E = ref_b64_encode(data, L, s_ref_text);
    static const size_t pres[] = {1, 2, 3, 5, 31, 32, 33, 63, 64, 65};
    size_t pre = mon_chance(rng, 1, 2) ? pres[mon_below(rng, sizeof(pres) / sizeof(pres[0]))] : 1 + (size_t)mon_below(rng, 70);
    size_t extra = 1 + (size_t)mon_below(rng, 40);
    bool short_with_pre = mon_chance(rng, 1, 2);
    mon_count("b64_encode_inputs", 1);
    if (s_skip_b64) {
        return;
    }
    uint8_t *in = (L == 0 && (var & V_NULLIN)) ? NULL : in_copy(data, L);
    struct aws_byte_cursor cur;
    cur.ptr = in;
    cur.len = L;

    size_t pred = SIZE_MAX;
    int lrc = aws_base64_compute_encoded_len(L, &pred);
    ++s_calls[K_LENFN];
    MON_CHECK(lrc == 0 && pred == E, "C05:b64-encoded-len:wrong", "aws_base64_compute_encoded_len(%zu) = rc %d, %zu; canonical text has %zu characters", L, lrc, pred, E);

    struct runres a;
    run_codec(K_B64ENC, aws_base64_encode, &cur, E, 0xA5, 0, &a);
    if (a.rc) {
        mon_violation("C05:b64-encode:failed", "aws_base64_encode of %zu bytes into exactly %zu bytes failed: error %d (%s)", L, E, a.err, aws_error_name(a.err));
    } else {
        expect_bytes(&a, "C05:b64-encode", data, L, s_ref_text, E, 0);
        mon_flag(L % 3 == 0 ? F_ENC_NOPAD : L % 3 == 2 ? F_ENC_PAD1 : F_ENC_PAD2);
        py_dump("b64enc", data, L, true, a.mem, a.len <= a.cap ? a.len : 0);
        /* round trip: the library's own output through the library's decoder */
        if (a.len == E) {
            struct aws_byte_cursor tc;
            tc.ptr = a.mem;
            tc.len = E;
            struct runres d;
            run_codec(K_B64DEC, aws_base64_decode, &tc, L, 0x5A, 0, &d);
            if (d.rc || d.len != L || (L && memcmp(d.mem, data, L))) {
                mon_violation("C05:b64:roundtrip", "decode(encode(x)) != x for x (%zu bytes) = %s: rc %d error %d len %zu", L, mon_hex(data, L, 80), d.rc, d.err, d.len);
            } else {
                mon_flag(F_ROUNDTRIP);
            }
            run_free(&d);
        }
    }
    run_free(&a);
    if (L >= 32) {
        mon_flag(F_BODY_GT_32);
    }
    if (L >= 4090) {
        mon_flag(F_LONG_INPUT);
    }

    /* appends at len: [0,pre) must survive, text must start at pre */
    size_t p_lo = all_prelens ? 0 : pre, p_hi = all_prelens ? 40 : pre;
    for (size_t p = p_lo; p <= p_hi; ++p) {
        struct runres r;
        run_codec(K_B64ENC, aws_base64_encode, &cur, p + E, 0x5A, p, &r);
        if (r.rc) {
            mon_violation("C05:b64-encode:failed", "aws_base64_encode of %zu bytes with len %zu capacity %zu (exact) failed: error %d (%s)", L, p, p + E, r.err, aws_error_name(r.err));
        } else {
            size_t t = first_touched(&r, 0, p);
            MON_CHECK(t == p, "C05:b64-encode:clobbered-existing", "aws_base64_encode with pre-existing len %zu modified existing byte %zu (input %zu bytes)", p, t, L);
            expect_bytes(&r, "C05:b64-encode:append", data, L, s_ref_text, E, p);
            if (p) {
                mon_flag(F_ENC_APPEND_AT_LEN);
            }
        }
        run_free(&r);
    }
    if (E >= 1 && (var & V_SHORT)) {
        struct runres s;
        size_t p = short_with_pre ? pre : 0;
        run_codec(K_B64ENC, aws_base64_encode, &cur, p + E - 1, 0xA5, p, &s);
        expect_short_buffer(&s, "aws_base64_encode", data, L);
        run_free(&s);
    }
    if (var & V_LARGER) {
        struct runres l;
        run_codec(K_B64ENC, aws_base64_encode, &cur, pre + E + extra, 0xA5, pre, &l);
        if (l.rc) {
            mon_violation("C05:b64-encode:failed", "aws_base64_encode of %zu bytes with len %zu capacity %zu (larger than needed) failed: error %d", L, pre, l.cap, l.err);
        } else {
            size_t t = first_touched(&l, 0, pre);
            MON_CHECK(t == pre, "C05:b64-encode:clobbered-existing", "aws_base64_encode with pre-existing len %zu modified existing byte %zu", pre, t);
            expect_bytes(&l, "C05:b64-encode:append", data, L, s_ref_text, E, pre);
            note_beyond_len(&l);
        }
        run_free(&l);
    }
    if (in) {
        mon_fence_free(in);
    }
}

/* ============================================================ hex */
static void check_hex_encode(const uint8_t *data, size_t L, unsigned var) {
    struct mon_rng *rng = &mon_case_rng;
    size_t E = ref_hex_encode(data, L, s_ref_text);
    size_t extra = 1 + (size_t)mon_below(rng, 40);
    size_t pre = (size_t)mon_below(rng, 50);
    size_t slack = (size_t)mon_below(rng, 3) ? (size_t)mon_below(rng, 2 * L + 8) : 0;
    uint8_t *in = (L == 0 && (var & V_NULLIN)) ? NULL : in_copy(data, L);
    struct aws_byte_cursor cur;
    cur.ptr = in;
    cur.len = L;
    mon_count("hex_encode_inputs", 1);

    size_t pred = SIZE_MAX;
    int lrc = aws_hex_compute_encoded_len(L, &pred);
    ++s_calls[K_LENFN];
    MON_CHECK(lrc == 0 && pred == E, "C05:hex-encoded-len:wrong", "aws_hex_compute_encoded_len(%zu) = rc %d, %zu; expected %zu", L, lrc, pred, E);

    struct runres a;
    run_codec(K_HEXENC, aws_hex_encode, &cur, E, 0xA5, 0, &a);
    if (a.rc) {
        mon_violation("C05:hex-encode:failed", "aws_hex_encode of %zu bytes into exactly %zu bytes failed: error %d (%s)", L, E, a.err, aws_error_name(a.err));
    } else {
        expect_bytes(&a, "C05:hex-encode", data, L, s_ref_text, E, 0);
        mon_flag(F_HEX_ENC);
        py_dump("hexenc", data, L, true, a.mem, a.len <= a.cap ? a.len : 0);
        if (a.len == E) {
            struct aws_byte_cursor tc;
            tc.ptr = a.mem;
            tc.len = E;
            struct runres d;
            run_codec(K_HEXDEC, aws_hex_decode, &tc, L, 0x5A, 0, &d);
            if (d.rc || d.len != L || (L && memcmp(d.mem, data, L))) {
                mon_violation("C05:hex:roundtrip", "hex decode(encode(x)) != x for x (%zu bytes) = %s: rc %d error %d len %zu", L, mon_hex(data, L, 80), d.rc, d.err, d.len);
            } else {
                mon_flag(F_ROUNDTRIP);
            }
            run_free(&d);
        }
    }
    run_free(&a);
    if (E >= 1 && (var & V_SHORT)) {
        struct runres s;
        run_codec(K_HEXENC, aws_hex_encode, &cur, E - 1, 0x5A, 0, &s);
        expect_short_buffer(&s, "aws_hex_encode", data, L);
        run_free(&s);
    }
    if (var & V_LARGER) {
        struct runres l;
        run_codec(K_HEXENC, aws_hex_encode, &cur, E + extra, 0x5A, 0, &l);
        if (l.rc) {
            mon_violation("C05:hex-encode:failed", "aws_hex_encode of %zu bytes with capacity %zu failed: error %d", L, l.cap, l.err);
        } else {
            expect_bytes(&l, "C05:hex-encode", data, L, s_ref_text, E, 0);
            note_beyond_len(&l);
        }
        run_free(&l);
    }
    /* the appending variant grows a dynamic buffer; existing contents must survive, text starts at the old len */
    if (in) {
        struct aws_allocator *alloc = mon_guard_allocator();
        struct mon_alloc_stats st0, st1;
        mon_guard_stats(&st0);
        struct aws_byte_buf buf;
        size_t cap0 = pre + slack;
        if (aws_byte_buf_init(&buf, alloc, cap0) == AWS_OP_SUCCESS) {
            for (size_t i = 0; i < pre; ++i) {
                buf.buffer[i] = (uint8_t)(0x3C ^ (i * 5));
            }
            buf.len = pre;
            dg(&s_din, K_HEXAPP * 1000003u + cap0 * 257u + pre);
            mon_poison_last_error(&mon_case_rng);
            int rc = aws_hex_encode_append_dynamic(&cur, &buf);
            ++s_calls[K_HEXAPP];
            dg(&s_dres, (uint64_t)(rc == 0));
            if (rc) {
                mon_violation("C05:hex-append:failed", "aws_hex_encode_append_dynamic(%zu bytes) onto len %zu capacity %zu failed: error %d", L, pre, cap0, aws_last_error());
            } else {
                bool good = buf.len == pre + E && buf.capacity >= buf.len;
                for (size_t i = 0; good && i < pre; ++i) {
                    good = buf.buffer[i] == (uint8_t)(0x3C ^ (i * 5));
                }
                MON_CHECK(good, "C05:hex-append:existing-or-length", "aws_hex_encode_append_dynamic(%zu bytes) onto len %zu: len %zu capacity %zu or existing bytes changed", L, pre, buf.len, buf.capacity);
                if (good && E && memcmp(buf.buffer + pre, s_ref_text, E)) {
                    mon_violation("C05:hex-append:bytes", "aws_hex_encode_append_dynamic of %s appended %s", mon_hex(data, L, 40), mon_hex(buf.buffer + pre, E, 80));
                }
                if (good) {
                    dg_bytes(&s_dres, buf.buffer + pre, E);
                }
                mon_flag(F_HEX_APPEND_DYNAMIC);
            }
            aws_byte_buf_clean_up(&buf);
        }
        mon_guard_stats(&st1);
        MON_CHECK(st1.live_blocks == st0.live_blocks, "C05:hex-append:leak", "allocator imbalance after aws_hex_encode_append_dynamic + clean_up");
    }
    if (in) {
        mon_fence_free(in);
    }
}

static void check_hex_decode(const uint8_t *text, size_t n, unsigned var) {
    struct mon_rng *rng = &mon_case_rng;
    size_t m = 0;
    bool ok = ref_hex_decode(text, n, s_ref_bin, &m);
    size_t want_len = (n + 1) / 2;
    size_t extra = 1 + (size_t)mon_below(rng, 40);
    size_t pre_pick = (size_t)mon_rand(rng);
    uint8_t *in = (n == 0 && (var & V_NULLIN)) ? NULL : in_copy(text, n);
    struct aws_byte_cursor cur;
    cur.ptr = in;
    cur.len = n;
    mon_count(ok ? "hex_decode_inputs_wellformed" : "hex_decode_inputs_malformed", 1);

    size_t pred = SIZE_MAX;
    int lrc = aws_hex_compute_decoded_len(n, &pred);
    ++s_calls[K_LENFN];
    MON_CHECK(lrc == 0 && pred == want_len, "C05:hex-decoded-len:wrong", "aws_hex_compute_decoded_len(%zu) = rc %d, %zu; expected %zu", n, lrc, pred, want_len);

    struct runres a, b;
    run_codec(K_HEXDEC, aws_hex_decode, &cur, want_len, 0xA5, 0, &a);
    run_codec(K_HEXDEC, aws_hex_decode, &cur, want_len, 0x5A, 0, &b);
    expect_written(&a, &b, "C05:hex-decode", text, n);
    if (ok) {
        if (a.rc) {
            mon_violation("C05:hex-decode:rejected-wellformed", "hex text (%zu chars) %s rejected: error %d (%s)", n, mon_hex(text, n, 80), a.err, aws_error_name(a.err));
        } else {
            expect_bytes(&a, "C05:hex-decode", text, n, s_ref_bin, m, 0);
            expect_bytes(&b, "C05:hex-decode", text, n, s_ref_bin, m, 0);
            mon_flag((n & 1) ? F_HEX_DEC_ODD : F_HEX_DEC_EVEN);
            for (size_t i = 0; i < n; ++i) {
                if (text[i] >= 'A' && text[i] <= 'F') {
                    mon_flag(F_HEX_DEC_UPPER);
                    break;
                }
            }
        }
        py_dump("hexdec", text, n, a.rc == 0, a.mem, a.rc == 0 && a.len <= a.cap ? a.len : 0);
    } else if (a.rc == 0) {
        mon_violation("C05:hex-decode:accepted-malformed", "hex text %s accepted: len %zu bytes %s", mon_hex(text, n, 80), a.len, mon_hex(a.mem, a.len < a.cap ? a.len : a.cap, 32));
    } else {
        MON_CHECK(a.err == AWS_ERROR_INVALID_HEX_STR, "C05:hex-decode:error-code", "malformed hex %s: error %d (%s), expected AWS_ERROR_INVALID_HEX_STR", mon_hex(text, n, 60), a.err, aws_error_name(a.err));
        MON_CHECK(a.len == 0, "C05:failed-call-changed-len", "aws_hex_decode failed but set len to %zu", a.len);
        mon_flag(F_HEX_REJECT);
    }
    run_free(&a);
    run_free(&b);
    if (ok && m >= 1 && (var & V_SHORT)) {
        struct runres s;
        run_codec(K_HEXDEC, aws_hex_decode, &cur, m - 1, 0xA5, (var & V_PRELEN) ? pre_pick % m : 0, &s);
        expect_short_buffer(&s, "aws_hex_decode", text, n);
        run_free(&s);
    }
    if (ok && (var & V_LARGER)) {
        struct runres l;
        run_codec(K_HEXDEC, aws_hex_decode, &cur, m + extra, 0x5A, 0, &l);
        if (l.rc) {
            mon_violation("C05:hex-decode:rejected-wellformed", "hex text %s rejected (error %d) with capacity %zu", mon_hex(text, n, 80), l.err, l.cap);
        } else {
            expect_bytes(&l, "C05:hex-decode", text, n, s_ref_bin, m, 0);
            note_beyond_len(&l);
        }
        run_free(&l);
    }
    if (ok && m >= 1 && (var & V_PRELEN)) {
        struct runres p;
        run_codec(K_HEXDEC, aws_hex_decode, &cur, m, 0xA5, 1 + pre_pick % m, &p);
        if (p.rc) {
            mon_violation("C05:hex-decode:rejected-wellformed", "hex text %s rejected (error %d) with pre-existing len", mon_hex(text, n, 80), p.err);
        } else {
            expect_bytes(&p, "C05:hex-decode:prelen", text, n, s_ref_bin, m, 0);
            mon_flag(F_DEC_PRELEN);
        }
        run_free(&p);
    }
    if (in) {
        mon_fence_free(in);
    }
}

/* length functions at the edge of size_t: either the exact value or a refusal, never a wrapped number */
static void check_len_fns(size_t n) {
    __uint128_t want;
    size_t got = 0;
    int rc;
    mon_poison_last_error(&mon_case_rng);
    rc = aws_base64_compute_encoded_len(n, &got);
    want = (((__uint128_t)n + 2) / 3) * 4;
    if (want > SIZE_MAX) {
        MON_CHECK(rc != 0 && aws_last_error() == AWS_ERROR_OVERFLOW_DETECTED, "C05:b64-encoded-len:overflow", "aws_base64_compute_encoded_len(%zu): rc %d value %zu, true value exceeds SIZE_MAX", n, rc, got);
        mon_flag(F_LEN_OVERFLOW);
    } else {
        MON_CHECK(rc == 0 && got == (size_t)want, "C05:b64-encoded-len:wrong", "aws_base64_compute_encoded_len(%zu) = rc %d, %zu", n, rc, got);
    }
    mon_poison_last_error(&mon_case_rng);
    rc = aws_hex_compute_encoded_len(n, &got);
    want = (__uint128_t)n * 2;
    if (want > SIZE_MAX) {
        MON_CHECK(rc != 0 && aws_last_error() == AWS_ERROR_OVERFLOW_DETECTED, "C05:hex-encoded-len:overflow", "aws_hex_compute_encoded_len(%zu): rc %d value %zu, true value exceeds SIZE_MAX", n, rc, got);
        mon_flag(F_LEN_OVERFLOW);
    } else {
        MON_CHECK(rc == 0 && got == (size_t)want, "C05:hex-encoded-len:wrong", "aws_hex_compute_encoded_len(%zu) = rc %d, %zu", n, rc, got);
    }
    mon_poison_last_error(&mon_case_rng);
    rc = aws_hex_compute_decoded_len(n, &got);
    want = ((__uint128_t)n + 1) / 2;
    /* the true value always fits; the function is documented to be able to fail (-1), which it does for SIZE_MAX */
    if (rc == 0) {
        MON_CHECK(got == (size_t)want, "C05:hex-decoded-len:wrong", "aws_hex_compute_decoded_len(%zu) = %zu, expected %zu", n, got, (size_t)want);
    } else {
        MON_CHECK(n == SIZE_MAX, "C05:hex-decoded-len:refused", "aws_hex_compute_decoded_len(%zu) failed", n);
    }
    s_calls[K_LENFN] += 3;
    dg(&s_din, n);
}

/* ============================================================ UTF-8 */
struct rec {
    uint32_t cps[MAXCP];
    size_t n;
    size_t abort_at; /* the callback fails when it is handed code point number abort_at (0-based); SIZE_MAX = never */
};
static struct rec s_rec;
static int s_on_cp(uint32_t cp, void *ud) {
    struct rec *r = ud;
    if (r->n < MAXCP) {
        r->cps[r->n] = cp;
    }
    if (r->n++ == r->abort_at) {
        return aws_raise_error(AWS_ERROR_INVALID_UTF8);
    }
    return AWS_OP_SUCCESS;
}
static void rec_reset(size_t abort_at) {
    s_rec.n = 0;
    s_rec.abort_at = abort_at;
}

struct u8out {
    bool ok;
    int err;
    size_t n;
    uint32_t cps[MAXCP];
};
static void u8out_take(struct u8out *o, bool ok) {
    o->ok = ok;
    o->err = ok ? 0 : aws_last_error();
    o->n = s_rec.n;
    memcpy(o->cps, s_rec.cps, sizeof(uint32_t) * (s_rec.n < MAXCP ? s_rec.n : MAXCP));
}
static bool u8out_same(const struct u8out *a, const struct u8out *b) {
    return a->ok == b->ok && a->n == b->n && !memcmp(a->cps, b->cps, sizeof(uint32_t) * (a->n < MAXCP ? a->n : MAXCP));
}
static const char *cps_str(const uint32_t *cps, size_t n) {
    static char buf[2][400];
    static int which;
    char *o = buf[which++ & 1];
    size_t len = 0;
    o[0] = 0;
    for (size_t i = 0; i < n && i < MAXCP && len < 360; ++i) {
        len += (size_t)snprintf(o + len, 400 - len, "%sU+%04X", i ? " " : "", cps[i]);
    }
    return o;
}

/* feeds text[0..n) to d in chunks ending at cuts[0] <= cuts[1] <= ... <= n (a final chunk up to n is implied) */
static void run_chunked(struct aws_utf8_decoder *d, const uint8_t *t, size_t n, const size_t *cuts, size_t ncuts, size_t abort_at,
                        struct u8out *out) {
    rec_reset(abort_at);
    size_t pos = 0;
    bool ok = true;
    mon_poison_last_error(&mon_case_rng);
    for (size_t k = 0; k <= ncuts && ok; ++k) {
        size_t end = k < ncuts ? cuts[k] : n;
        struct aws_byte_cursor c;
        c.ptr = (uint8_t *)t + pos;
        c.len = end - pos;
        if (c.len == 0) {
            mon_flag(F_UTF8_EMPTY_CHUNK);
            if (k & 1) {
                c.ptr = NULL;
            }
        }
        ok = aws_utf8_decoder_update(d, c) == AWS_OP_SUCCESS;
        ++s_calls[K_UTF8];
        pos = end;
    }
    if (ok) {
        /* documented: "This also resets the decoder" - whatever the verdict; the object is reused as it is */
        ok = aws_utf8_decoder_finalize(d) == AWS_OP_SUCCESS;
        u8out_take(out, ok);
        if (!ok) {
            mon_flag(F_UTF8_REUSE_AFTER_ERROR);
        }
    } else {
        u8out_take(out, false);
        /* nothing is documented about the state after a failed update: reset before the object is used again */
        aws_utf8_decoder_reset(d);
        mon_flag(F_UTF8_REUSE_AFTER_ERROR);
    }
}

static const char *cuts_str(const size_t *cuts, size_t ncuts) {
    static char buf[400];
    size_t len = 0;
    buf[0] = 0;
    for (size_t i = 0; i < ncuts && len < 380; ++i) {
        len += (size_t)snprintf(buf + len, 400 - len, "%s%zu", i ? "," : "", cuts[i]);
    }
    return buf;
}

static struct aws_utf8_decoder *s_dec, *s_dec_plain;

static void chunk_compare(const uint8_t *t, size_t n, const size_t *cuts, size_t ncuts, size_t abort_at, const struct u8out *one,
                          const struct u8res *ref) {
    struct u8out got;
    run_chunked(s_dec, t, n, cuts, ncuts, abort_at, &got);
    if (!u8out_same(&got, one)) {
        mon_violation("C05:utf8:chunking", "text %s fed in chunks ending at [%s] (callback abort at %zd): %s, code points {%s}; one-shot: %s, {%s}",
                      mon_hex(t, n, MAXU8), cuts_str(cuts, ncuts), (ssize_t)abort_at, got.ok ? "valid" : "invalid", cps_str(got.cps, got.n),
                      one->ok ? "valid" : "invalid", cps_str(one->cps, one->n));
    }
    for (size_t k = 0; k < ncuts; ++k) {
        size_t c = cuts[k];
        if (c > 0 && c < n && c < ref->err_at && t[c] >= 0x80 && t[c] <= 0xBF) {
            mon_flag(F_UTF8_SPLIT_INSIDE_CODEPOINT);
        }
    }
    dg(&s_dres, (uint64_t)got.ok * 131 + got.n);
}

static void check_utf8(const uint8_t *text, size_t n, unsigned nrandom) {
    struct mon_rng *rng = &mon_case_rng;
    struct u8res strict, model;
    ref_utf8(text, n, 0x10FFFF, &strict);
    /* The header promises RFC 3629 validation, which stops at U+10FFFF; the decoder accepts every 4-byte form up to
     * U+1FFFFF (no upper-bound test in source/encoding.c). C05 is about chunking independence, not about this bound, so
     * the model the library is held to accepts them too; every such text is counted and reported as a note. */
    ref_utf8(text, n, 0x1FFFFF, &model);
    if (model.n != strict.n || model.ok != strict.ok) {
        static bool noted;
        if (!noted && mon_run.slice == 0) {
            noted = true;
            mon_note("observation outside C05: the UTF-8 decoder has no upper bound, e.g. text %s is judged by RFC 3629 as %s after %zu code points, "
                     "by the library as %s after %zu (4-byte forms F4 90.. to F7 BF BF BF, U+110000..U+1FFFFF, are accepted although encoding.h "
                     "promises RFC 3629 validation); the chunking oracle uses the library's bound", mon_hex(text, n, MAXU8),
                     strict.ok ? "valid" : "invalid", strict.n, model.ok ? "valid" : "invalid", model.n);
        }
        mon_flag(F_UTF8_ABOVE_10FFFF);
        mon_count("utf8_texts_with_codepoint_above_10FFFF_accepted_by_library_model", 1);
    }
    uint8_t *in = in_copy(text, n);
    struct aws_byte_cursor cur;
    cur.ptr = in;
    cur.len = n;
    dg(&s_din, K_UTF8);
    dg_bytes(&s_din, text, n);
    mon_count("utf8_texts", 1);

    struct aws_utf8_decoder_options opt;
    opt.on_codepoint = s_on_cp;
    opt.user_data = &s_rec;
    struct u8out one;
    rec_reset(SIZE_MAX);
    mon_poison_last_error(&mon_case_rng);
    bool ok1 = aws_decode_utf8(cur, &opt) == AWS_OP_SUCCESS;
    ++s_calls[K_UTF8];
    u8out_take(&one, ok1);
    dg(&s_dres, (uint64_t)one.ok * 131 + one.n);
    dg_bytes(&s_dres, (const uint8_t *)one.cps, sizeof(uint32_t) * (one.n < MAXCP ? one.n : MAXCP));
    if (one.ok != model.ok || one.n != model.n || memcmp(one.cps, model.cps, sizeof(uint32_t) * (one.n < MAXCP ? one.n : MAXCP))) {
        mon_violation("C05:utf8:reference", "aws_decode_utf8(%s): %s, code points {%s}; RFC 3629 reference: %s, {%s}", mon_hex(text, n, MAXU8),
                      one.ok ? "valid" : "invalid", cps_str(one.cps, one.n), model.ok ? "valid" : "invalid", cps_str(model.cps, model.n));
    }
    if (!one.ok) {
        MON_CHECK(one.err == AWS_ERROR_INVALID_UTF8, "C05:utf8:error-code", "aws_decode_utf8(%s) failed with error %d (%s)", mon_hex(text, n, MAXU8), one.err, aws_error_name(one.err));
        mon_flag(F_UTF8_INVALID);
    } else {
        for (size_t i = 0; i < one.n && i < MAXCP; ++i) {
            if (one.cps[i] >= 0x80) {
                mon_flag(F_UTF8_VALID_MULTIBYTE);
            }
        }
    }
    if (py_want(n)) {
        ++s_py_records;
        fprintf(s_py, "{\"k\":\"utf8\",\"case\":%llu,\"in\":", (unsigned long long)s_case);
        py_hex(text, n);
        fprintf(s_py, ",\"ok\":%s,\"cps\":[", one.ok ? "true" : "false");
        for (size_t i = 0; i < one.n && i < MAXCP; ++i) {
            fprintf(s_py, "%s%u", i ? "," : "", one.cps[i]);
        }
        fputs("]}\n", s_py);
    }
    /* validation only (no callback): same verdict */
    mon_poison_last_error(&mon_case_rng);
    bool okv = aws_decode_utf8(cur, NULL) == AWS_OP_SUCCESS;
    ++s_calls[K_UTF8];
    MON_CHECK(okv == one.ok, "C05:utf8:validate-only-verdict", "aws_decode_utf8(%s, NULL options) says %s, with a callback %s", mon_hex(text, n, MAXU8), okv ? "valid" : "invalid", one.ok ? "valid" : "invalid");

    size_t cuts[MAXU8 * 2 + 8];
    /* every byte its own chunk */
    for (size_t i = 0; i < n; ++i) {
        cuts[i] = i + 1;
    }
    chunk_compare(in, n, cuts, n, SIZE_MAX, &one, &model);
    /* all 2-way splits (exhaustive up to 24 bytes; longer texts: every split as well, they are at most MAXU8 bytes) */
    for (size_t i = 0; i <= n; ++i) {
        cuts[0] = i;
        chunk_compare(in, n, cuts, 1, SIZE_MAX, &one, &model);
    }
    mon_count("utf8_two_way_splits", n + 1);
    /* validation-only decoder object, 1-byte chunks and one random split */
    {
        bool ok = true;
        size_t split = (size_t)mon_below(rng, n + 1);
        for (size_t i = 0; i < n && ok; ++i) {
            struct aws_byte_cursor c;
            c.ptr = in + i;
            c.len = 1;
            ok = aws_utf8_decoder_update(s_dec_plain, c) == AWS_OP_SUCCESS;
        }
        if (ok) {
            ok = aws_utf8_decoder_finalize(s_dec_plain) == AWS_OP_SUCCESS;
        } else {
            aws_utf8_decoder_reset(s_dec_plain);
        }
        MON_CHECK(ok == one.ok, "C05:utf8:chunking", "validation-only decoder, 1-byte chunks of %s: %s; one-shot %s", mon_hex(text, n, MAXU8), ok ? "valid" : "invalid", one.ok ? "valid" : "invalid");
        struct aws_byte_cursor c1, c2;
        c1.ptr = in, c1.len = split;
        c2.ptr = in + split, c2.len = n - split;
        ok = aws_utf8_decoder_update(s_dec_plain, c1) == AWS_OP_SUCCESS && aws_utf8_decoder_update(s_dec_plain, c2) == AWS_OP_SUCCESS;
        if (ok) {
            ok = aws_utf8_decoder_finalize(s_dec_plain) == AWS_OP_SUCCESS;
        } else {
            aws_utf8_decoder_reset(s_dec_plain);
        }
        MON_CHECK(ok == one.ok, "C05:utf8:chunking", "validation-only decoder, %s split at %zu: %s; one-shot %s", mon_hex(text, n, MAXU8), split, ok ? "valid" : "invalid", one.ok ? "valid" : "invalid");
        s_calls[K_UTF8] += n + 4;
    }
    /* random chunkings including empty chunks; now and then the object is dirtied (half a code point) and reset first */
    for (unsigned k = 0; k < nrandom && mon_violations() < 8; ++k) {
        size_t nc = (size_t)mon_below(rng, n + 3);
        if (nc > MAXU8 * 2) {
            nc = MAXU8 * 2;
        }
        for (size_t i = 0; i < nc; ++i) {
            cuts[i] = (size_t)mon_below(rng, n + 1);
        }
        for (size_t i = 1; i < nc; ++i) { /* insertion sort: duplicates = empty chunks */
            size_t v = cuts[i], j = i;
            while (j > 0 && cuts[j - 1] > v) {
                cuts[j] = cuts[j - 1];
                --j;
            }
            cuts[j] = v;
        }
        if (mon_chance(rng, 1, 8)) {
            static const uint8_t half[] = {0xF0, 0x9F, 0x98};
            struct aws_byte_cursor c;
            c.ptr = (uint8_t *)half;
            c.len = 1 + (size_t)mon_below(rng, 3);
            rec_reset(SIZE_MAX);
            (void)aws_utf8_decoder_update(s_dec, c);
            aws_utf8_decoder_reset(s_dec);
            mon_count("utf8_reset_of_half_fed_decoder", 1);
        }
        chunk_compare(in, n, cuts, nc, SIZE_MAX, &one, &model);
    }
    mon_count("utf8_random_chunkings", nrandom);
    /* callback that refuses code point number k: verdict and delivered prefix must not depend on chunking either */
    if (model.n > 0) {
        size_t k = (size_t)mon_below(rng, model.n);
        struct u8out ab;
        rec_reset(k);
        mon_poison_last_error(&mon_case_rng);
        bool oka = aws_decode_utf8(cur, &opt) == AWS_OP_SUCCESS;
        ++s_calls[K_UTF8];
        u8out_take(&ab, oka);
        MON_CHECK(!ab.ok && ab.n == k + 1, "C05:utf8:callback-abort", "callback refused code point #%zu of %s: verdict %s after %zu code points", k, mon_hex(text, n, MAXU8), ab.ok ? "valid" : "invalid", ab.n);
        for (size_t i = 0; i < n; ++i) {
            cuts[i] = i + 1;
        }
        chunk_compare(in, n, cuts, n, k, &ab, &model);
        cuts[0] = (size_t)mon_below(rng, n + 1);
        chunk_compare(in, n, cuts, 1, k, &ab, &model);
        mon_flag(F_UTF8_CALLBACK_ABORT);
    }
    mon_fence_free(in);
}

/* ============================================================ generators */
static uint8_t s_text[MAXTEXT + 8];
static uint8_t s_bin[MAXBIN + 8];

static const uint8_t s_hostile[] = {'=', 0x00, '-', '_', ' ', 0x80, '\n', '\r', '.', ',', '@', '[', '`', '{', ':', '*', 0xFF, 0x7F, '!', '~',
                                    0xC1, 0xE1, 0xAB /* high-bit twins of 'A','a','+' */};

static uint8_t rnd_alpha(struct mon_rng *r) {
    return ref_b64_char((unsigned)mon_below(r, 64));
}
/* well-formed text of q quanta; shape of the last one: 0 = xxxx, 1 = xxx=, 2 = xx== */
static size_t gen_valid_text(struct mon_rng *r, uint8_t *t, size_t q, int shape) {
    for (size_t i = 0; i < 4 * q; ++i) {
        t[i] = rnd_alpha(r);
    }
    if (q && shape == 1) {
        t[4 * q - 2] = ref_b64_char((unsigned)mon_below(r, 16) * 4);
        t[4 * q - 1] = '=';
    } else if (q && shape == 2) {
        t[4 * q - 3] = ref_b64_char((unsigned)mon_below(r, 4) * 16);
        t[4 * q - 2] = '=';
        t[4 * q - 1] = '=';
    }
    return 4 * q;
}
static size_t gen_bin_len(struct mon_rng *r) {
    unsigned pick = (unsigned)mon_below(r, 100);
    if (pick < 55) {
        return (size_t)mon_below(r, 201);
    }
    if (pick < 65) {
        return 4090 + (size_t)mon_below(r, 11);
    }
    if (pick < 80) {
        return mon_edge_size(r, 200);
    }
    size_t k = 1 + (size_t)mon_below(r, 12);
    size_t base = mon_chance(r, 1, 2) ? 24 * k : 32 * k;
    return base + (size_t)mon_below(r, 3) - 1;
}
static void gen_bin(struct mon_rng *r, uint8_t *b, size_t n) {
    unsigned pick = (unsigned)mon_below(r, 10);
    if (pick < 7) {
        mon_fill_random(r, b, n);
    } else if (pick == 7) {
        static const uint8_t same[] = {0x00, 0xFF, 0xFB, 0xEF, 0xBE, 0x3E, 0x3F};
        memset(b, same[mon_below(r, sizeof(same))], n);
    } else {
        /* few distinct 6-bit groups, many '+' and '/' */
        for (size_t i = 0; i < n; ++i) {
            static const uint8_t set[] = {0xFB, 0xEF, 0xBE, 0xFF, 0x00, 0xF8, 0x3E, 0xFC};
            b[i] = set[mon_below(r, sizeof(set))];
        }
    }
}
static size_t gen_quanta(struct mon_rng *r) {
    unsigned pick = (unsigned)mon_below(r, 100);
    if (pick < 25) {
        return 1 + (size_t)mon_below(r, 3);
    }
    if (pick < 55) {
        static const size_t q[] = {6, 7, 8, 9, 10, 14, 15, 16, 17, 18, 23, 24, 25};
        return q[mon_below(r, sizeof(q) / sizeof(q[0]))];
    }
    if (pick < 95) {
        return (size_t)mon_below(r, 68);
    }
    return 1365 + (size_t)mon_below(r, 4);
}
static size_t gen_pos(struct mon_rng *r, size_t n) { /* position biased to the final quantum and to vector boundaries */
    if (n == 0) {
        return 0;
    }
    unsigned pick = (unsigned)mon_below(r, 10);
    if (pick < 4) {
        size_t back = (size_t)mon_below(r, 4);
        return back < n ? n - 1 - back : 0;
    }
    if (pick < 6 && n > 32) {
        size_t blocks = n / 32;
        size_t p = 32 * (1 + (size_t)mon_below(r, blocks)) + (size_t)mon_below(r, 3);
        return p >= 1 && p - 1 < n ? p - 1 : n - 1;
    }
    if (pick == 6) {
        return 0;
    }
    return (size_t)mon_below(r, n);
}

/* 1-3 mutations of a well-formed text; the reference decides afterwards what the result is */
static size_t mutate_text(struct mon_rng *r, uint8_t *t, size_t n) {
    unsigned nm = 1 + (unsigned)mon_below(r, 10) / 7 + (unsigned)mon_below(r, 10) / 8;
    for (unsigned k = 0; k < nm; ++k) {
        unsigned what = (unsigned)mon_below(r, 12);
        mon_fp(what);
        size_t p = gen_pos(r, n);
        switch (what) {
            case 0: case 1: case 2:
                if (n) {
                    t[p] = s_hostile[mon_below(r, sizeof(s_hostile))];
                }
                break;
            case 3:
                if (n) {
                    t[p] = (uint8_t)mon_below(r, 256);
                }
                break;
            case 4:
                if (n) {
                    t[p] = '=';
                }
                break;
            case 5: { /* drop 1-3 characters from the end */
                size_t d = 1 + (size_t)mon_below(r, 3);
                n = n > d ? n - d : 0;
                break;
            }
            case 6: { /* append 1-3 characters */
                size_t a = 1 + (size_t)mon_below(r, 3);
                for (size_t i = 0; i < a && n < MAXTEXT; ++i) {
                    t[n++] = mon_chance(r, 1, 3) ? '=' : rnd_alpha(r);
                }
                break;
            }
            case 7: /* non-zero pad bits */
                if (n >= 4 && t[n - 1] == '=') {
                    size_t at = t[n - 2] == '=' ? n - 3 : n - 2;
                    int v = ref_b64_val(t[at]);
                    if (v >= 0) {
                        unsigned mask = t[n - 2] == '=' ? 0x0F : 0x03;
                        t[at] = ref_b64_char(((unsigned)v & ~mask) | (1 + (unsigned)mon_below(r, mask)));
                    }
                } else if (n >= 4) {
                    t[n - 1] = '=';
                }
                break;
            case 8: /* a padded quantum that is not the last one */
                if (n >= 8) {
                    size_t qd = (size_t)mon_below(r, n / 4 - 1);
                    t[4 * qd + 3] = '=';
                    if (mon_chance(r, 1, 2)) {
                        t[4 * qd + 2] = '=';
                    }
                }
                break;
            case 9: /* '=' in third place, something else in fourth */
                if (n >= 4) {
                    t[n - 2] = '=';
                    t[n - 1] = mon_chance(r, 1, 2) ? rnd_alpha(r) : s_hostile[mon_below(r, sizeof(s_hostile))];
                }
                break;
            case 10: /* neighbour of an alphabet range boundary */
                if (n) {
                    static const uint8_t edge[] = {'A' - 1, 'Z' + 1, 'a' - 1, 'z' + 1, '0' - 1, '9' + 1, '+' - 1, '+' + 1, '/' + 1};
                    t[p] = edge[mon_below(r, sizeof(edge))];
                }
                break;
            default: /* high-bit twin of the character that is there */
                if (n) {
                    t[p] |= 0x80;
                }
                break;
        }
    }
    return n;
}

static size_t u8_put(uint8_t *o, uint32_t cp, int len) {
    switch (len) {
        case 1:
            o[0] = (uint8_t)cp;
            return 1;
        case 2:
            o[0] = (uint8_t)(0xC0 | ((cp >> 6) & 0x1F));
            o[1] = (uint8_t)(0x80 | (cp & 0x3F));
            return 2;
        case 3:
            o[0] = (uint8_t)(0xE0 | ((cp >> 12) & 0x0F));
            o[1] = (uint8_t)(0x80 | ((cp >> 6) & 0x3F));
            o[2] = (uint8_t)(0x80 | (cp & 0x3F));
            return 3;
        default:
            o[0] = (uint8_t)(0xF0 | ((cp >> 18) & 0x07));
            o[1] = (uint8_t)(0x80 | ((cp >> 12) & 0x3F));
            o[2] = (uint8_t)(0x80 | ((cp >> 6) & 0x3F));
            o[3] = (uint8_t)(0x80 | (cp & 0x3F));
            return 4;
    }
}
static int u8_natural_len(uint32_t cp) {
    return cp < 0x80 ? 1 : cp < 0x800 ? 2 : cp < 0x10000 ? 3 : 4;
}
static size_t gen_utf8(struct mon_rng *r, uint8_t *t) {
    static const uint32_t edges[] = {0, 1, 0x7F, 0x80, 0x7FF, 0x800, 0xFFF, 0x1000, 0xD7FF, 0xE000, 0xFFFD, 0xFFFF, 0x10000,
                                     0x3FFFF, 0x40000, 0xFFFFF, 0x100000, 0x10FFFF};
    size_t n = 0;
    unsigned units = (unsigned)mon_below(r, 13);
    bool only_valid = mon_chance(r, 1, 3); /* a third of the texts are well-formed throughout */
    if (mon_chance(r, 1, 6)) {
        /* byte-order mark (or a damaged / truncated one) in front: what follows is judged like any other text */
        static const uint8_t bom[3] = {0xEF, 0xBB, 0xBF};
        size_t k = mon_chance(r, 5, 6) ? 3 : 1 + (size_t)mon_below(r, 2);
        memcpy(t, bom, k);
        n = k;
        mon_fp(0xB03 + k);
        mon_flag(F_UTF8_BOM_PREFIX);
    }
    for (unsigned u = 0; u < units && n + 8 < MAXU8 - 8; ++u) {
        unsigned pick = (unsigned)mon_below(r, only_valid ? 57 : 100);
        mon_fp(pick);
        if (pick < 30) {
            uint32_t cp = edges[mon_below(r, sizeof(edges) / sizeof(edges[0]))];
            n += u8_put(t + n, cp, u8_natural_len(cp));
        } else if (pick < 45) {
            static const uint32_t lim[] = {0x80, 0x800, 0x10000, 0x110000};
            unsigned cls = (unsigned)mon_below(r, 4);
            uint32_t lo = cls ? lim[cls - 1] : 0;
            uint32_t cp = lo + (uint32_t)mon_below(r, lim[cls] - lo);
            if (cp >= 0xD800 && cp <= 0xDFFF) {
                cp = 0xE000;
            }
            n += u8_put(t + n, cp, u8_natural_len(cp));
        } else if (pick < 57) {
            unsigned k = 1 + (unsigned)mon_below(r, 4);
            for (unsigned i = 0; i < k; ++i) {
                t[n++] = (uint8_t)(0x20 + mon_below(r, 0x5F));
            }
        } else if (pick < 65) { /* surrogate */
            static const uint32_t s[] = {0xD800, 0xDBFF, 0xDC00, 0xDFFF};
            uint32_t cp = mon_chance(r, 1, 2) ? s[mon_below(r, 4)] : 0xD800 + (uint32_t)mon_below(r, 0x800);
            n += u8_put(t + n, cp, 3);
        } else if (pick < 74) { /* overlong: the largest/smallest value of a shorter class in a longer form */
            static const uint32_t v[] = {0, 0x2F, 0x7F, 0x80, 0x7FF, 0x800, 0xFFFF};
            uint32_t cp = v[mon_below(r, 7)];
            int nat = u8_natural_len(cp);
            int len = nat + 1 + (int)mon_below(r, (uint64_t)(4 - nat));
            n += u8_put(t + n, cp, len);
        } else if (pick < 80) { /* beyond U+10FFFF */
            static const uint32_t v[] = {0x110000, 0x13FFFF, 0x140000, 0x1FFFFF};
            n += u8_put(t + n, mon_chance(r, 1, 2) ? v[mon_below(r, 4)] : 0x110000 + (uint32_t)mon_below(r, 0xF0000), 4);
        } else if (pick < 87) { /* stray continuation or impossible lead */
            static const uint8_t v[] = {0x80, 0xBF, 0xF8, 0xFB, 0xFC, 0xFE, 0xFF, 0xC0, 0xC1, 0xF5};
            t[n++] = v[mon_below(r, sizeof(v))];
        } else { /* truncated multi-byte sequence */
            uint32_t cp = edges[3 + mon_below(r, sizeof(edges) / sizeof(edges[0]) - 3)];
            uint8_t tmp[4];
            size_t len = u8_put(tmp, cp, u8_natural_len(cp));
            size_t keep = 1 + (size_t)mon_below(r, len - 1);
            memcpy(t + n, tmp, keep);
            n += keep;
        }
    }
    if (only_valid) {
        return n;
    }
    if (n && mon_chance(r, 2, 5)) {
        unsigned k = 1 + (unsigned)mon_below(r, 2);
        for (unsigned i = 0; i < k; ++i) {
            static const uint8_t v[] = {0x80, 0xBF, 0xC0, 0xC2, 0xE0, 0xED, 0xEF, 0xF0, 0xF4, 0xF5, 0x7F, 0x00, 0xA0, 0x9F, 0x90, 0x8F};
            t[mon_below(r, n)] = mon_chance(r, 1, 2) ? v[mon_below(r, sizeof(v))] : (uint8_t)mon_below(r, 256);
        }
    }
    if (n && mon_chance(r, 1, 7)) {
        n = (size_t)mon_below(r, n + 1);
    }
    return n;
}

/* evidence samples: each of the four stages shows a different sweep and different random cases */
static bool s_sample_this_case;
#define SAMPLE(...)                                                                                    \
    do {                                                                                               \
        if (s_sample_this_case) {                                                                      \
            mon_sample(__VA_ARGS__);                                                                   \
        }                                                                                              \
    } while (0)

/* ============================================================ exhaustive sweeps (case index < s_nsweep * repetitions) */
enum { S_LAST4, S_PAIRS, S_EQUALS, S_B64LEN, S_HEXLEN, S_HEXBYTE, S_U8_ONE, S_U8_LEAD, S_LENFN };
struct sweep {
    int type;
    unsigned a, b, c;
};
static struct sweep s_sweeps[800];
static size_t s_nsweep;
static const size_t s_prefixes[7] = {0, 4, 28, 32, 36, 60, 64};

static void build_sweeps(void) {
    size_t n = 0;
    for (unsigned p = 0; p < 7; ++p) {
        for (unsigned pos = 0; pos < 4; ++pos) {
            for (unsigned shape = 0; shape < 3; ++shape) {
                s_sweeps[n++] = (struct sweep){S_LAST4, p, pos, shape};
            }
        }
    }
    for (unsigned p = 0; p < 3; ++p) {
        for (unsigned cls = 0; cls < 2; ++cls) {
            for (unsigned grp = 0; grp < 7; ++grp) {
                s_sweeps[n++] = (struct sweep){S_PAIRS, p, cls, grp};
            }
        }
    }
    for (unsigned len = 4; len <= 72; len += 4) {
        s_sweeps[n++] = (struct sweep){S_EQUALS, len, 0, 0};
    }
    s_sweeps[n++] = (struct sweep){S_EQUALS, 96, 0, 0};
    s_sweeps[n++] = (struct sweep){S_EQUALS, 100, 0, 0};
    for (unsigned L = 0; L <= 200; ++L) {
        s_sweeps[n++] = (struct sweep){S_B64LEN, L, 0, 0};
    }
    for (unsigned L = 4090; L <= 4100; ++L) {
        s_sweeps[n++] = (struct sweep){S_B64LEN, L, 0, 0};
    }
    for (unsigned L = 0; L <= 200; ++L) {
        s_sweeps[n++] = (struct sweep){S_HEXLEN, L, 0, 0};
    }
    for (unsigned len = 1; len <= 4; ++len) {
        for (unsigned pos = 0; pos < len; ++pos) {
            s_sweeps[n++] = (struct sweep){S_HEXBYTE, len, pos, 0};
        }
    }
    s_sweeps[n++] = (struct sweep){S_U8_ONE, 0, 0, 0};
    for (unsigned lead = 0xC0; lead <= 0xFF; ++lead) {
        s_sweeps[n++] = (struct sweep){S_U8_LEAD, lead, 0, 0};
    }
    s_sweeps[n++] = (struct sweep){S_LENFN, 0, 0, 0};
    s_nsweep = n;
}

static void run_sweep(const struct sweep *s) {
    struct mon_rng *r = &mon_case_rng;
    mon_fp(1000 + (uint64_t)s->type);
    mon_fp(((uint64_t)s->a << 32) | ((uint64_t)s->b << 16) | s->c);
    switch (s->type) {
        case S_LAST4: {
            /* every byte value at one of the last four positions, after 0/4/28/32/36/60/64 well-formed characters */
            size_t P = s_prefixes[s->a];
            size_t n = gen_valid_text(r, s_text, P / 4 + 1, (int)s->c);
            uint8_t keep = s_text[P + s->b];
            SAMPLE("sweep last4: prefix %zu, position %u of the final quantum '%.4s', all 256 byte values", P, s->b, (const char *)s_text + P);
            for (unsigned v = 0; v < 256 && mon_violations() < 8; ++v) {
                s_text[P + s->b] = (uint8_t)v;
                check_b64_decode(s_text, n, 0);
            }
            s_text[P + s->b] = keep;
            mon_count("sweep_last4_inputs", 256);
            break;
        }
        case S_PAIRS: {
            /* every pair over alphabet + {'=', NUL, '-', '_', ' ', 0x80} in the last two positions */
            static const size_t pp[3] = {0, 28, 32};
            uint8_t sym[70];
            for (unsigned i = 0; i < 64; ++i) {
                sym[i] = ref_b64_char(i);
            }
            sym[64] = '=', sym[65] = 0, sym[66] = '-', sym[67] = '_', sym[68] = ' ', sym[69] = 0x80;
            size_t P = pp[s->a];
            size_t n = gen_valid_text(r, s_text, P / 4 + 1, 0);
            /* second character: class 0 leaves zero pad bits for "xx==", class 1 does not */
            unsigned v1 = (unsigned)mon_below(r, 4) * 16 + (s->b ? 1 + (unsigned)mon_below(r, 15) : 0);
            s_text[P + 1] = ref_b64_char(v1);
            SAMPLE("sweep pairs: prefix %zu, second char '%c', third x fourth over 70 symbols (third from group %u)", P, s_text[P + 1], s->c);
            for (unsigned i = s->c * 10; i < s->c * 10 + 10 && mon_violations() < 8; ++i) {
                for (unsigned j = 0; j < 70; ++j) {
                    s_text[P + 2] = sym[i];
                    s_text[P + 3] = sym[j];
                    check_b64_decode(s_text, n, 0);
                }
            }
            mon_count("sweep_pair_inputs", 700);
            break;
        }
        case S_EQUALS: {
            /* '=' and '==' at every position of an otherwise well-formed text */
            size_t n = gen_valid_text(r, s_text, s->a / 4, 0);
            SAMPLE("sweep equals: %zu characters, '=' and '==' at every position", n);
            for (size_t i = 0; i < n && mon_violations() < 8; ++i) {
                uint8_t k0 = s_text[i], k1 = i + 1 < n ? s_text[i + 1] : 0;
                s_text[i] = '=';
                check_b64_decode(s_text, n, 0);
                if (i + 1 < n) {
                    s_text[i + 1] = '=';
                    check_b64_decode(s_text, n, 0);
                    s_text[i + 1] = k1;
                    mon_count("sweep_equals_inputs", 1);
                }
                s_text[i] = k0;
                mon_count("sweep_equals_inputs", 1);
            }
            break;
        }
        case S_B64LEN: {
            size_t L = s->a;
            mon_fill_random(r, s_bin, L);
            SAMPLE("sweep b64 length %zu: encode (exact, one short, larger, pre-existing len%s), round trip, decode", L, L <= 24 ? " 0..40" : "");
            check_b64_encode(s_bin, L, V_SHORT | V_LARGER | (L == 0 ? V_NULLIN : 0), L <= 24);
            memset(s_bin, 0xFF, L);
            check_b64_encode(s_bin, L, V_SHORT, false);
            size_t n = ref_b64_encode(s_bin, L, s_text);
            mon_fill_random(r, s_bin, L);
            n = ref_b64_encode(s_bin, L, s_text);
            check_b64_decode(s_text, n, V_SHORT | V_LARGER | V_PRELEN | (L == 0 ? V_NULLIN : 0));
            mon_count("sweep_b64_lengths", 1);
            break;
        }
        case S_HEXLEN: {
            size_t L = s->a;
            mon_fill_random(r, s_bin, L);
            SAMPLE("sweep hex length %zu: encode %zu bytes; decode texts of %zu and %zu characters", L, L, L, 2 * L);
            check_hex_encode(s_bin, L, V_SHORT | V_LARGER | (L == 0 ? V_NULLIN : 0));
            for (int pass = 0; pass < 2; ++pass) {
                size_t n = pass ? 2 * L : L;
                for (size_t i = 0; i < n; ++i) {
                    unsigned v = (unsigned)mon_below(r, 16);
                    s_text[i] = (v >= 10 && mon_chance(r, 1, 2)) ? (uint8_t)('A' + v - 10) : ref_hex_digit(v);
                }
                check_hex_decode(s_text, n, V_SHORT | V_LARGER | V_PRELEN | (n == 0 ? V_NULLIN : 0));
            }
            mon_count("sweep_hex_lengths", 1);
            break;
        }
        case S_HEXBYTE: {
            size_t n = s->a;
            for (size_t i = 0; i < n; ++i) {
                s_text[i] = ref_hex_digit((unsigned)mon_below(r, 16));
            }
            SAMPLE("sweep hex: %zu characters, all 256 byte values at position %u", n, s->b);
            for (unsigned v = 0; v < 256 && mon_violations() < 8; ++v) {
                s_text[s->b] = (uint8_t)v;
                check_hex_decode(s_text, n, 0);
            }
            mon_count("sweep_hex_byte_inputs", 256);
            break;
        }
        case S_U8_ONE: {
            SAMPLE("sweep utf8: all 256 one-byte texts, alone and followed by 'A'");
            for (unsigned v = 0; v < 256 && mon_violations() < 8; ++v) {
                uint8_t t[2] = {(uint8_t)v, 'A'};
                check_utf8(t, 1, 1);
                check_utf8(t, 2, 1);
            }
            mon_count("sweep_utf8_texts", 512);
            break;
        }
        case S_U8_LEAD: {
            /* lead byte x every second byte x boundary values of the remaining continuation bytes */
            static const uint8_t third[] = {0x7F, 0x80, 0xBF, 0xC0};
            uint8_t lead = (uint8_t)s->a;
            int len = lead < 0xE0 ? 2 : lead < 0xF0 ? 3 : 4;
            SAMPLE("sweep utf8: lead byte %02x, all 256 second bytes, boundary continuation bytes", lead);
            for (unsigned v = 0; v < 256 && mon_violations() < 8; ++v) {
                uint8_t t[5] = {lead, (uint8_t)v, 0, 0, 'z'};
                if (len == 2) {
                    check_utf8(t, 2, 1);
                    mon_count("sweep_utf8_texts", 1);
                } else if (len == 3) {
                    for (unsigned k = 0; k < 4; ++k) {
                        t[2] = third[k];
                        t[3] = 'z';
                        check_utf8(t, 4, 1);
                    }
                    mon_count("sweep_utf8_texts", 4);
                } else {
                    static const uint8_t tails[3][2] = {{0x80, 0x80}, {0xBF, 0xBF}, {0x80, 0x7F}};
                    for (unsigned k = 0; k < 3; ++k) {
                        t[2] = tails[k][0];
                        t[3] = tails[k][1];
                        check_utf8(t, 5, 1);
                    }
                    mon_count("sweep_utf8_texts", 3);
                }
            }
            break;
        }
        case S_LENFN: {
            static const size_t base[] = {0, 1, 2, 3, 4, 0x55555555u, 0x7FFFFFFFu, 0xFFFFFFFFu, (size_t)1 << 32, SIZE_MAX / 4, SIZE_MAX / 3, SIZE_MAX / 2,
                                          SIZE_MAX / 4 * 3, SIZE_MAX};
            SAMPLE("sweep length functions near powers of two, SIZE_MAX/4, /3, /2, *3/4 and SIZE_MAX");
            for (size_t i = 0; i < sizeof(base) / sizeof(base[0]); ++i) {
                for (int d = -4; d <= 4; ++d) {
                    if ((d < 0 && base[i] < (size_t)-d) || (d > 0 && base[i] > SIZE_MAX - (size_t)d)) {
                        continue;
                    }
                    check_len_fns(base[i] + (size_t)d);
                }
            }
            for (unsigned k = 0; k < 64; ++k) {
                check_len_fns(((size_t)1 << k) - 1);
                check_len_fns((size_t)1 << k);
                check_len_fns((size_t)mon_rand(r) >> mon_below(r, 8));
            }
            mon_count("sweep_length_fn", 1);
            break;
        }
    }
}

/* ============================================================ random cases */
static void run_random_case(void) {
    struct mon_rng *r = &mon_case_rng;
    unsigned kind = (unsigned)mon_below(r, 100);
    unsigned var = 0;
    var |= mon_chance(r, 1, 2) ? V_SHORT : 0;
    var |= mon_chance(r, 1, 2) ? V_LARGER : 0;
    var |= mon_chance(r, 1, 3) ? V_PRELEN : 0;
    var |= mon_chance(r, 1, 2) ? V_NULLIN : 0;
    if (kind < 24) {
        size_t L = gen_bin_len(r);
        gen_bin(r, s_bin, L);
        mon_fp(1);
        mon_fp(L);
        SAMPLE("b64 encode %zu bytes %s: exact, len>0, %s%sround trip", L, mon_hex(s_bin, L, 24), (var & V_SHORT) ? "one short, " : "", (var & V_LARGER) ? "larger, " : "");
        check_b64_encode(s_bin, L, var, false);
    } else if (kind < 44) {
        size_t q = gen_quanta(r);
        int shape = (int)mon_below(r, 3);
        size_t n = gen_valid_text(r, s_text, q, shape);
        mon_fp(2);
        mon_fp(n * 4 + (unsigned)shape);
        SAMPLE("b64 decode well-formed text of %zu chars (..%s), twice (a5/5a fill)%s%s%s", n, mon_hex(n >= 8 ? s_text + n - 8 : s_text, n >= 8 ? 8 : n, 8),
                   (var & V_SHORT) ? ", one short" : "", (var & V_LARGER) ? ", larger" : "", (var & V_PRELEN) ? ", pre-existing len" : "");
        check_b64_decode(s_text, n, var);
    } else if (kind < 70) {
        size_t q = gen_quanta(r);
        int shape = (int)mon_below(r, 3);
        size_t n = gen_valid_text(r, s_text, q, shape);
        mon_fp(3);
        mon_fp(n * 4 + (unsigned)shape);
        n = mutate_text(r, s_text, n);
        if (s_sample_this_case && mon_sampling()) {
            size_t m;
            int reason = ref_b64_decode(s_text, n, s_ref_bin, &m);
            SAMPLE("b64 decode mutated text %s: reference says %s", mon_hex(s_text, n, 80), s_reason_names[reason]);
        }
        check_b64_decode(s_text, n, var);
    } else if (kind < 80) {
        size_t L = mon_chance(r, 3, 4) ? (size_t)mon_below(r, 201) : mon_edge_size(r, 600);
        gen_bin(r, s_bin, L);
        mon_fp(4);
        mon_fp(L);
        SAMPLE("hex encode %zu bytes %s (+ append_dynamic), round trip", L, mon_hex(s_bin, L, 24));
        check_hex_encode(s_bin, L, var);
    } else if (kind < 88) {
        size_t n = mon_chance(r, 3, 4) ? (size_t)mon_below(r, 201) : mon_edge_size(r, 1200);
        unsigned cas = (unsigned)mon_below(r, 3);
        for (size_t i = 0; i < n; ++i) {
            unsigned v = (unsigned)mon_below(r, 16);
            bool up = cas == 1 || (cas == 2 && mon_chance(r, 1, 2));
            s_text[i] = (v >= 10 && up) ? (uint8_t)('A' + v - 10) : ref_hex_digit(v);
        }
        mon_fp(5);
        mon_fp(n);
        if (mon_chance(r, 1, 2) && n) {
            static const uint8_t bad[] = {'g', 'G', '/', ':', '@', '`', 0x80, 0xE1, ' ', 0, 'x', 'X', '-', 0xFF, 'f' + 1, 'F' + 1, '0' - 1, '9' + 1, 'a' - 1, 'A' - 1};
            unsigned k = 1 + (unsigned)mon_below(r, 2);
            for (unsigned i = 0; i < k; ++i) {
                size_t p = mon_chance(r, 1, 3) ? (mon_chance(r, 1, 2) ? 0 : n - 1) : (size_t)mon_below(r, n);
                s_text[p] = mon_chance(r, 3, 4) ? bad[mon_below(r, sizeof(bad))] : (uint8_t)mon_below(r, 256);
            }
            mon_fp(6);
        }
        SAMPLE("hex decode %zu chars %s", n, mon_hex(s_text, n, 60));
        check_hex_decode(s_text, n, var);
    } else {
        uint8_t t[MAXU8 + 8];
        size_t n = gen_utf8(r, t);
        mon_fp(7);
        mon_fp(n);
        SAMPLE("utf8 %s: one-shot vs 1-byte chunks, all %zu two-way splits, %ld random chunkings, callback abort", mon_hex(t, n, MAXU8), n + 1, mon_run.param[2] > 0 ? mon_run.param[2] : 200L);
        check_utf8(t, n, mon_run.param[2] > 0 ? (unsigned)mon_run.param[2] : 200u);
    }
}

/* ============================================================ CPU path verification */
static void verify_path(void) {
    bool host = aws_cpu_has_feature(AWS_CPU_FEATURE_AVX2);
    const char *env = getenv("AWS_COMMON_AVX2");
    if (s_intended && !host) {
        mon_note("host CPU has no usable AVX2 (aws_cpu_has_feature): the vector path cannot be executed; base64 is skipped in this process and "
                 "the cross-path clause is inconclusive");
        s_skip_b64 = true;
        mon_count("path_unconfirmed", 1);
        return;
    }
    if (!env || atoi(env) != s_intended) {
        mon_note("AWS_COMMON_AVX2=%s but this process was told to verify path %d", env ? env : "(unset)", s_intended);
    }
    bool dispatch = aws_common_private_has_avx2();
    /* behavioural probe: 64 characters with a foreign one at index 40. The portable decoder has written the ten complete
     * quanta before it (30 bytes) when it gives up, the vector decoder only the first 32-character vector (24 bytes). */
    uint8_t text[64];
    memset(text, 'A', sizeof(text));
    text[40] = '!';
    uint8_t *out = mon_fence_new(48);
    memset(out, 0xA5, 48);
    struct aws_byte_cursor cur = aws_byte_cursor_from_array(text, sizeof(text));
    struct aws_byte_buf buf = aws_byte_buf_from_empty_array(out, 48);
    int rc = aws_base64_decode(&cur, &buf);
    size_t zeros = 0;
    while (zeros < 48 && out[zeros] == 0) {
        ++zeros;
    }
    mon_fence_free(out);
    int probe = (rc != 0 && zeros == 24) ? 1 : (rc != 0 && zeros == 30) ? 0 : -1;
    if (mon_run.slice == 0)
        mon_note("path check: intended=%s host_avx2=%d AWS_COMMON_AVX2=%s dispatch_predicate=%d probe=%s (%zu bytes written before rejecting at index 40)",
             s_intended ? "vector" : "portable", host, env ? env : "(unset)", dispatch, probe == 1 ? "vector" : probe == 0 ? "portable" : "unknown", zeros);
    if ((int)dispatch == s_intended && probe == s_intended) {
        s_on_vector = s_intended;
        mon_count(s_intended ? "path_confirmed_vector_" VARIANT : "path_confirmed_portable_" VARIANT, 1);
    } else {
        mon_count("path_unconfirmed", 1);
    }
}

int main(int argc, char **argv) {
    mon_init(argc, argv, "C05");
    aws_common_library_init(aws_default_allocator());
    for (int i = 0; i < F_NFLAGS; ++i) {
        mon_flag_name(i, s_flag_names[i]);
    }
    s_intended = mon_run.param[0] ? 1 : 0;
    uint64_t reps = mon_run.param[1] > 0 ? (uint64_t)mon_run.param[1] : 1;
    build_sweeps();
    verify_path();
    char path[4096];
    snprintf(path, sizeof(path), "%s/xd.%d", mon_run.outdir, mon_run.slice);
    s_xd = fopen(path, "wb");
    snprintf(path, sizeof(path), "%s/py.%d", mon_run.outdir, mon_run.slice);
    s_py = fopen(path, "w");
    struct aws_utf8_decoder_options opt;
    opt.on_codepoint = s_on_cp;
    opt.user_data = &s_rec;
    s_dec = aws_utf8_decoder_new(mon_guard_allocator(), &opt);
    s_dec_plain = aws_utf8_decoder_new(mon_guard_allocator(), NULL);

    uint64_t c;
    while (mon_next_case(&c)) {
        mon_case_begin(c);
        s_case = c;
        s_din = 0xcbf29ce484222325ULL;
        s_dres = 0x84222325cbf29ce4ULL;
        {
#if defined(VERIF_VARIANT_REL)
            unsigned stage_id = 2u + (unsigned)!s_intended;
#else
            unsigned stage_id = (unsigned)!s_intended;
#endif
            static const unsigned show[4] = {0, 100, 130, 400};
            s_sample_this_case = c < s_nsweep * reps ? c == show[stage_id] : c % 4 == stage_id;
        }
        if (c < s_nsweep * reps) {
            run_sweep(&s_sweeps[c % s_nsweep]);
        } else {
            run_random_case();
        }
        mon_fp(s_din);
        xd_case(c, s_din, s_dres);
        mon_case_end(mon_flag_count() >= 1);
    }
    aws_utf8_decoder_destroy(s_dec);
    aws_utf8_decoder_destroy(s_dec_plain);
    struct mon_alloc_stats st;
    mon_guard_stats(&st);
    MON_CHECK(st.live_blocks == 0, "C05:utf8:decoder-leak", "%llu guard blocks live after destroying the decoders", (unsigned long long)st.live_blocks);
    xd_flush();
    if (s_xd) {
        fclose(s_xd);
    }
    if (s_py) {
        fclose(s_py);
    }
    static const char *cn[8] = {NULL, "calls_base64_encode", "calls_base64_decode", "calls_hex_encode", "calls_hex_decode", "calls_hex_encode_append_dynamic",
                                "calls_utf8_decode_update", "calls_length_functions"};
    uint64_t total = 0;
    for (int k = 1; k < 8; ++k) {
        mon_count(cn[k], s_calls[k]);
        total += s_calls[k];
    }
    mon_count(s_intended ? "codec_calls_on_vector_path" : "codec_calls_on_portable_path", total);
    mon_count(s_intended ? "inputs_digest32_" VARIANT "_vector" : "inputs_digest32_" VARIANT "_portable", s_sum_in32);
    mon_count(s_intended ? "results_digest32_" VARIANT "_vector" : "results_digest32_" VARIANT "_portable", s_sum_res32);
    return mon_finish();
}
