/*
 * Force-included (-include) into the tsan / asanh builds of aws-c-common (DESIGN.md 4.4).
 * Gives every atomic builtin the library uses a schedule point, without editing the
 * source tree.  A function-like macro is not re-expanded inside its own expansion, so
 * the builtin itself is still what gets called.
 *
 * Guard: AWS_C_COMMON_VERIF.  With the guard off this header is empty.
 */
#ifndef VERIF_HOOKS_H
#define VERIF_HOOKS_H
#if defined(AWS_C_COMMON_VERIF) && !defined(VERIF_NO_ATOMIC_HOOKS) && !defined(__ASSEMBLER__)

#ifdef __cplusplus
extern "C" {
#endif
void verif_sched_point(int kind);
#ifdef __cplusplus
}
#endif

/* kinds: 1 load, 2 store, 3 rmw, 4 cas */
#define __atomic_load_n(p, o) (verif_sched_point(1), __atomic_load_n((p), (o)))
#define __atomic_store_n(p, v, o) (verif_sched_point(2), __atomic_store_n((p), (v), (o)))
#define __atomic_exchange_n(p, v, o) (verif_sched_point(3), __atomic_exchange_n((p), (v), (o)))
#define __atomic_compare_exchange_n(p, e, d, w, s, f) \
    (verif_sched_point(4), __atomic_compare_exchange_n((p), (e), (d), (w), (s), (f)))
#define __atomic_fetch_add(p, v, o) (verif_sched_point(3), __atomic_fetch_add((p), (v), (o)))
#define __atomic_fetch_sub(p, v, o) (verif_sched_point(3), __atomic_fetch_sub((p), (v), (o)))
#define __atomic_fetch_or(p, v, o) (verif_sched_point(3), __atomic_fetch_or((p), (v), (o)))
#define __atomic_fetch_and(p, v, o) (verif_sched_point(3), __atomic_fetch_and((p), (v), (o)))
#define __atomic_fetch_xor(p, v, o) (verif_sched_point(3), __atomic_fetch_xor((p), (v), (o)))

#endif
#endif
